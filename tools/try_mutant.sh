#!/bin/sh
# tools/try_mutant.sh <worktree-src-dir> <outdir> <check ids...> : run checks against a scratch worktree
src="$1"; out="$2"; shift 2
mkdir -p "$out"
for c in "$@"; do
  EXO_SRC="$src" VERIF_EVIDENCE_DIR="$out/evidence" VERIF_REPLAY_DIR="$out/replays" /verif/check $c > "$out/$c.log" 2>&1
  echo "$c rc=$? $(grep -c '^VIOLATION' $out/$c.log) violations"
done
