#!/usr/bin/env python3
"""Writes /verif/MANIFEST.json from the table below (single source of truth) and validates it."""
import json, os, sys

ROOT = os.path.dirname(os.path.dirname(os.path.abspath(__file__)))
BASE_CMD = ("cd /repo && env -u EXO_LANG_EXO_VERIF /venv/bin/python -m pytest -ra -q -p no:cacheprovider "
            "--timeout=900 --continue-on-collection-errors")

MC = "model_checking"
TV = "translation_validation"
EX = "exploration"

CHECKS = {
    "C01": dict(level=MC, design="6/C01",
        technique="TLA+ small-step LoopIR machine (ExoMachine/ExoEquiv) model-checked by TLC on real derivation edges",
        text="Every accepted derivation edge (corpus procedure x real primitive x cursor x argument grid, plus depth-2 chains; and "
             "every derivation step that the repository's own test files perform, recorded by the pytest plugin harness/testrec.py) is "
             "projected to a unit of spec/ExoMachine.tla; TLC runs source and derived procedure on every admissible input of the "
             "bounded input domain and checks equality of all argument buffers and of all configuration fields outside the reported modset.",
        note="Trusted: TLC, the projection harness/export.py (no semantics), value mode F (field Z_32749, Schwartz-Zippel), "
             "bounded inputs (sizes 1..3 +- literals, strided windows), corpus and candidate grid as enumerated."),
    "C02": dict(level=TV, design="6/C02",
        technique="TLA+ trace validation (ExoCTrace mode of ExoMachine): executions of the real compiled C are checked by TLC against the LoopIR machine",
        text="Every corpus procedure (as written and after randomly chosen accepted schedules) is compiled by the real backend, built with "
             "gcc + ASan/UBSan and run on each admissible input of the bounded domain (dense and offset/stride-2 windows, negative "
             "index arguments, all config fields); each execution's complete final state is one trace event that TLC accepts only if "
             "it equals the final state of spec/ExoMachine.tla (mode Z) on the same procedure and input. Corpora: A, memory lifetimes, "
             "name clashes, the sorted-emission library and the index-form matrix; plus the final procedure of every host-realisable "
             "test of the repository's own test files (recorded by harness/testrec.py).",
        note="Trusted: gcc 12, the C driver generator harness/cdrv.py, TLC, exact small-integer data (mode Z); host-realisable memories only."),
    "C04": dict(level=MC, design="6/C04",
        technique="TLA+ static predicate ExoProgram!WellScoped + safety traps of the ExoMachine small-step semantics, model-checked by TLC on derived procedures",
        text="For every accepted derivation edge (corpus grid, dimension operations x windows, name clashes, and the derivation "
             "steps recorded from the repository's own tests) TLC evaluates WellScoped on the derived procedure (every use in scope of exactly one binder) "
             "and runs it on every admissible bounded input: no out-of-bounds access, violated callee assertion, non-positive size, shape "
             "mismatch, aliased call arguments, negative trip count or unbound symbol where the source is safe, and no uninitialised "
             "value where the source produced a defined one.",
        note="Trusted: TLC, projection, bounded inputs; sources that are themselves ill-scoped (chains) are excluded from the claim."),
    "C10": dict(level=MC, design="6/C10",
        technique="TLA+ ExoMachine/ExoEquiv with the CfgAgree clause model-checked by TLC on configuration-affecting derivation edges",
        text="Accepted bind_config/write_config/delete_config/call_eqv operations and ~25 other primitives applied around configuration "
             "reads and writes (directly and through callees) are run by TLC over the bounded input domain including varied initial "
             "configuration states: all buffers must agree and every configuration field outside the modset reported by the "
             "equivalence tracker must agree; call_eqv with a same-signature callee of foreign origin, or with a variant "
             "narrowed by add_assertion, must be rejected. The corpus includes a dataflow matrix (a field written early and read "
             "later under a guard on size / argument / incoming value / a field written in a loop, under an if or by a callee; "
             "read directly, through a callee or as a bare call argument; adjacent ifs whose guard the first one changes).",
        note="Trusted: TLC, projection, value mode F, sampled initial configuration states."),
    "C12": dict(level=MC, design="6/C12",
        technique="TLA+ trace refinement (ExoAccessTrace mode of ExoMachine): the simplified procedure must replay the source's access trace; TLC",
        text="simplify is applied to generated procedures whose indices, bounds, allocation sizes and conditions are random quasi-affine "
             "expressions (/, % by literals, negative intermediates, shadowed iterators), to a systematic matrix of index forms "
             "(literal minus expression, negative exact multiples, scaled sums over divisors with several factorisations, "
             "constants outside [0, d), every nesting of two operators) and to the results of other primitives; TLC "
             "requires the simplified procedure to produce exactly the source's sequence of write/reduce locations and allocation "
             "shapes and the same final state, for every admissible bounded input.",
        note="Trusted: TLC, projection; values of read-only index expressions are observed through final values only."),
    "C19": dict(level=MC, design="6/C19",
        technique="TLA+ ExoMachine/ExoEquiv with input/output relations (Rel, outmap permutations) model-checked by TLC",
        text="partial_eval (all singleton/pair argument subsets x values), transpose (every 2-D argument), add_assertion (narrowing), "
             "rename, make_instr, set_precision, set_memory, set_window and parallelize_loop are applied to the corpus; TLC checks the "
             "stated relation between source and result on all bounded inputs in real-number (mode F) semantics.",
        note="Trusted: TLC, the relation construction in harness/utilunits.py (fixing arguments, permuting cells)."),
    "C03": dict(level=MC, design="6/C03",
        technique="TLA+ ExoMachine Safe invariant (trap conditions transcribing the property) model-checked by TLC on front-end-accepted programs",
        text="Exo source texts generated from 14 templates with offsets, extents, guards, assertions and call arguments drawn around "
             "the accept/reject boundary are submitted to the real @proc; every accepted program (and every corpus procedure) is "
             "run by TLC on all bounded inputs and must never trap: out-of-bounds access, violated callee assertion, "
             "non-positive size, shape mismatch, aliased call arguments, negative trip count.",
        note="Trusted: TLC, projection, bounded inputs (sizes 1..3 and literal neighbourhoods, index arguments -2..3)."),
    "C05": dict(level=MC, design="6/C05",
        technique="TLA+ ExoMachine/ExoEquiv with call-site traps (Precond, NonPosSize, ShapeMismatch, AliasedArgs) model-checked by TLC on replace edges",
        text="replace/replace_all are tried on every statement and block of 14 kernels against 9 callees/instructions with window, "
             "size, index, bool and scalar arguments and range/stride assertions, and on a generated matrix (guard operator x operand "
             "order x offset; right-hand-side operator x operand order x coinciding buffers x assign/reduce; bounds/offset/stride; "
             "same-named distinct iterators) of 44 kernels x 18 callees; for every success TLC checks that the new call "
             "(executing the callee's Exo body) has exactly the effect of the replaced statements, that callee assertions, sizes, "
             "shapes and aliasing hold at the call site, and that inlining the call again is equivalent.",
        note="Trusted: TLC, projection, bounded inputs."),
    "C08": dict(level=MC, design="6/C08",
        technique="TLA+ ExoMachine HeapOK monitor on the IR emitted by the real MemoryAnalysis + ExoCTrace validation of sanitizer-instrumented C runs",
        text="(1) The IR after the four backend analyses (with Free statements) is exported and run by TLC: no access or window after "
             "free (also through window aliases), no double free, no leak at scope exit, on all bounded inputs. (2) The compiled C, "
             "built with ASan/UBSan/LSan and -Werror=discarded-qualifiers, is executed on the same inputs; abort and "
             "const-violation events are not behaviours of the trace specification. The final procedures of the repository's own "
             "tests are included in both parts.",
        note="Trusted: TLC, gcc sanitizers, harness/analyzed.py (re-runs the backend analyses per procedure as the compiler does); "
             "signed overflow only as far as UBSan sees it on small inputs."),
    "C09": dict(level=MC, design="6/C09",
        technique="TLA+ ExoMachine RaceFree monitor (per-iteration read/write/reduce location sets) and iteration-order nondeterminism (ExoPar mode: all permutations of parallel iterations) model-checked by TLC on procedures the backend compiles",
        text="Procedures with par loops (written so at every depth, under if and in callees; and parallelize_loop applied to every loop "
             "and loop pair of the corpora) that the real backend compiles are run by TLC on all bounded inputs; at the end of every "
             "iteration of every parallel loop instance the iteration's write/reduce set must be disjoint from all other iterations' accesses; "
             "then (ExoPar mode of the machine) the same procedure is run with the iterations of every parallel loop in every order "
             "(TLC branches over the permutations) and every final state must equal the sequential one.",
        note="Trusted: TLC, projection; iterations are atomic in the order exploration (statement-level interleavings are covered by the RaceFree monitor, not enumerated); OpenMP runtime not executed."),
    "C06": dict(level=MC, design="6/C06",
        technique="TLA+ CursorEdit specification (labelled trees, elementary edits, forwarding) model-checked by TLC, replayed transition-by-transition on internal_cursors, label oracle applied to real primitives",
        text="(1) TLC proves FwdSound/FwdComplete for all labelled statement trees up to 4 (thorough 5) nodes x insert/replace/delete/"
             "wrap/move x every node, gap and block cursor. (2) Every explored transition is replayed on real internal_cursors "
             "objects: resulting tree and every forwarded cursor must equal the specification's. (3) Every accepted candidate of "
             "the primitive grid on shape programs forwards all cursors with the real Procedure.forward; results are judged by the "
             "spec's label oracle (same statement, never another one, never dangling), across chains and for implicit forwarding. "
             "(4) The same oracle, with identity of carried-over node objects as the label, on every derivation step of the "
             "repository's own tests. (5) Code -> spec: every elementary edit performed by the primitives of (3) and (4) is recorded "
             "(tree before/after, edit, images of up to 160 cursors) and validated by TLC against CursorEdit's own step "
             "(spec/CursorEditTrace.tla: tree agreement, equal forwarding, Sound on the real-sized tree).",
        note="Trusted: TLC; label extraction from unique literals; block cursors judged by the edge criterion; moves into a later "
             "sibling subtree of an ancestor (never produced by public primitives) are replayed but excluded from FwdSound."),
    "C11": dict(level=MC, design="6/C11",
        technique="TLA+ refinement check (ProcEqv: implementation-shaped union-finds vs abstract per-field closure) by TLC, history replay into proc_eqv, trace validation of recorded sessions (ProcEqvTrace)",
        text="TLC explores all histories of procedure creation, derivation with arbitrary modsets and assert_eqv over 4 procedures / 2 "
             "keys up to 5 (thorough 6) steps with keys first mentioned at any point, proving that the union-find scheme answers "
             "exactly the per-field reflexive-symmetric-transitive closure and never relates different origins; one witness history "
             "per state is replayed through Procedure/unsafe_assert_eq and all pairwise answers of get_strictest_eqv_proc, "
             "check_eqv_proc and is_eq are compared; histories recorded from random real scheduling sessions are validated as "
             "behaviours of the specification together with the tracker's final answers.",
        note="Trusted: TLC; per-field reading of the property; tracker globals reset between replayed histories."),
    "C16": dict(level=MC, design="6/C16",
        technique="TLA+ CursorTree (navigation laws) and Pattern (match semantics, program order, #n) specifications checked by TLC and replayed result-by-result on the public cursor API and Procedure.find",
        text="TLC checks the navigation coherence laws (next/prev, before/after/anchor, parent/child, as_block/index/slice/expand, "
             "invalid exactly at the edges) for all statement trees up to 4 (thorough 6) nodes and all cursors, and computes "
             "Matches/Find for all statement forests up to 3 (thorough 4) nodes over a statement alphabet x 23 patterns; every "
             "navigation result and every find_all / find / #n answer (including the error past the last match) is recomputed "
             "with the real API and must be identical.",
        note="Trusted: TLC; trees are built directly as LoopIR (no front end); expression sub-patterns limited to literals."),
    "C17": dict(level=MC, design="6/C17",
        technique="TLA+ PrintEnv naming-automaton specification (Injective) checked by TLC and replayed on the real printer; print/reparse pairs validated with ExoMachine/ExoEquiv",
        text="TLC proves that the scoped naming scheme never prints two visible symbols alike for all histories of push/pop/get_name "
             "over symbols whose base names include generated-looking names (x, x_1, y), and every history is replayed on the real "
             "PrintEnv; the same injectivity predicate monitors every real print of corpus and derived procedures; the printed "
             "text is parsed again by the real front end, must print identically, and TLC checks the reparsed procedure equivalent "
             "to the original on all bounded inputs; the final procedures of the repository's own tests go through the same "
             "print / monitor / reparse / compare pipeline.",
        note="Trusted: TLC; reparses rejected by the front end's incomplete static checks are counted, not failed; "
             "already ill-scoped procedures are outside the claim."),
    "C13": dict(level=MC, design="6/C13",
        technique="TLA+ IndexExpr specification (floor-semantics evaluation, containment over all valuations) validating claims logged from the real range analysis; TLC",
        text="Every claim the real range analysis makes - logged inside index_range_analysis while the real compiler, simplify and "
             "loop/buffer normalisation run on the corpus, returned to users by infer_range for every index expression and "
             "scope, or produced on generated expressions x environments with unknown and half-open ends - is checked by TLC: "
             "for all valuations admitted by the environment the expression's value lies in base + [lo, hi]; ranges of procedure "
             "arguments (arg_range_analysis) are checked against all argument valuations satisfying the procedure's assertions, "
             "narrowed variants (add_assertion) analysed first.",
        note="Trusted: TLC, the claim export (harness/rangeclaims.py); unknown ends explored in a finite window."),
    "C07": dict(level=MC, design="6/C07",
        technique="TLA+ SessionTrace specification (frame conditions Immutable / CursorsStable as enabling conditions of every step) validating recorded real scheduling sessions; TLC",
        text="Random sessions apply candidates of the whole primitive grid (about half of which raise, some after partial "
             "rewriting), prints, forwards and C generation to randomly chosen live procedures; after every operation every live "
             "Procedure (deep structural fingerprint of all nodes, lists and callees, printed text, C text) and every live cursor "
             "is re-fingerprinted, and TLC accepts the session only if each observation is a step of the state machine in which "
             "no existing procedure or cursor changed and failing operations define nothing; the repository's own tests are "
             "validated the same way (one session per test: every Procedure the test creates re-fingerprinted after each creation "
             "and at teardown; one session per file for procedures created at import time), and so are stability sessions: "
             "the outcomes of a sample of calls on an existing procedure are handles, unrelated (mostly refused) operations on "
             "other procedures follow, and the same calls must then give the same outcomes (module-level analysis caches).",
        note="Trusted: TLC, the fingerprint function (harness/purity.py); module-level caches observed only through results."),
    "C15": dict(level=MC, design="6/C15",
        technique="TLA+ Annot specification (Consistent over the annotation assignment space) enumerated by TLC and replayed on the real set_precision/set_memory/set_window + compiler; gcc as external judge of validity",
        text="TLC enumerates the precision/memory/window assignments of a caller->callee->leaf template with the verdict of the "
             "Consistent predicate (one precision per expression, matching precisions and memories across calls, direct access "
             "only to accessible memories, no window where a dense tensor is required); each replayed assignment is applied with "
             "the real operators and compiled: an inconsistent one must be rejected at compile time, an accepted one must yield "
             "C and header text accepted by gcc -std=c11 with strict -Werror flags; corpus and derived procedures' C is checked too. "
             "The template has tensor, window-statement-alias and scalar arguments (9 buffers, alias dimension).",
        note="Trusted: TLC, gcc 12; one template call graph; 'valid C' is the C compiler's judgement."),
    "C18": dict(level=EX, design="6/C18",
        technique="TLA+ Determinism specification (2-safety over recorded runs: observations of the same source and schedule step must agree) validating runs of fresh interpreters; TLC",
        text="The same scripted sessions (corpus procedures x a fixed schedule script; single-procedure and multi-procedure library "
             "compiles) are executed in fresh interpreters under PYTHONHASHSEED 0/1/2/random, different numbers of previously "
             "created symbols and procedures and different import orders; every observation carries digests of the printed "
             "procedure, C and header, and the specification accepts an observation only if it equals every earlier "
             "observation with the same key; procedures rebuilt from source under a sweep of the global symbol counter (just "
             "below powers of ten) must give identical text as well.",
        note="Sampling of process histories (exploration); trusted: TLC, sha1 digests, kernel ASLR."),
    "C14": dict(level=TV, design="6/C14",
        technique="TLA+ trace validation (ExoCTrace mode of ExoMachine): executions of the real intrinsics are checked by TLC against the machine running the instructions' Exo bodies",
        text="Each of the 60 @instr definitions of exo.platforms.x86 is wrapped in a generated procedure (DRAM operands at an offset "
             "inside larger arrays and - one operand at a time, wherever exo's assertion check accepts it - as a stride-3 column of a "
             "2-D array; register operands moved with the library's load/store instructions), compiled with gcc "
             "-mavx2 -mfma -mavx512f and sanitizers and executed on lane-distinct operands plus boundary fills (all operands equal, "
             "zero, neighbouring values, every adjacent pair of operands tied) for every admissible size/mask value; "
             "TLC accepts an execution only if its final state equals that of spec/ExoMachine.tla executing the Exo bodies.",
        note="Trusted: gcc and the host CPU (AVX2 and AVX-512F present), TLC; operands restricted to exactly representable values."),
}

NOT_YET = {}


def main():
    props = [json.loads(l)["id"] for l in open(os.path.join(ROOT, "properties.jsonl"))]
    checks = []
    for pid in props:
        if pid not in CHECKS:
            continue
        c = CHECKS[pid]
        checks.append({
            "property_id": pid,
            "quick_cmd": f"./check {pid} --tier quick",
            "thorough_cmd": f"./check {pid} --tier thorough",
            "evidence_file": f"/verif/evidence/{pid}.json",
            "replay_cmd_template": f"./check {pid} --replay {{path}}",
            "engine": "tlc",
            "level_claimed": {"category": c["level"], "text": c["text"], "design_ref": c["design"]},
            "level_note": c["note"],
            "technique": c["technique"],
        })
    na = [{"property_id": pid, "reason": NOT_YET.get(pid, "check not built yet in this revision (see DESIGN.md section 6 for the plan)")}
          for pid in props if pid not in CHECKS]
    m = {
        "version": 1,
        "setup_cmd": "./setup.sh",
        "hooks": {
            "guard": "EXO_LANG_EXO_VERIF",
            "enable": "checks export EXO_LANG_EXO_VERIF=1 and import exo from /repo/src (editable install); "
                      "no source hooks are needed so far: recording is done by harness-side wrappers",
            "baseline_off_cmd": BASE_CMD,
            "source_commits": [],
            "add_only": True,
        },
        "engines": [
            {"name": "tlc", "path": "/opt/veriftools/tla/tla2tools.jar", "serves_properties": [c["property_id"] for c in checks],
             "kind_free_text": "TLC 1.8 explicit-state model checker on the TLA+ specifications under /verif/spec"},
        ],
        "checks": checks,
        "not_applicable": na,
        "notes": "All checks: ./check <id> --tier quick|thorough; exit 0/1/2 = held / VIOLATION / machinery failure. "
                 "Known findings: /verif/known_findings.json (never written at run time).",
    }
    with open(os.path.join(ROOT, "MANIFEST.json"), "w") as f:
        json.dump(m, f, indent=1)
    try:
        import jsonschema
        jsonschema.validate(m, json.load(open("/root/.vp/MANIFEST.schema.json")))
        print("MANIFEST.json valid;", len(checks), "checks,", len(na), "not_applicable")
    except ImportError:
        print("MANIFEST.json written (jsonschema not available to validate)")


if __name__ == "__main__":
    main()
