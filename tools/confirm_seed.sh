#!/bin/sh
# tools/confirm_seed.sh <ID> [full] : confirm a sub-agent's seeded change in its scratch worktree /tmp/seed/wt_<ID>
#  - patch applies to /repo HEAD (checked in the worktree), demo exits 0 on /repo/src and 1 on the worktree
#  - with "full": the whole pinned test suite in the worktree; failing set must equal the baseline's
id="$1"; S="${SEEDSET:-}"; wt=/tmp/seed/wt${S}_$id; out=/tmp/seed/out${S}_$id
cd "$wt" || exit 2
git diff > /tmp/seed/confirm${S}_$id.diff
git apply --check -R /tmp/seed/confirm${S}_$id.diff && echo "worktree diff is a clean patch ($(wc -l < /tmp/seed/confirm${S}_$id.diff) lines)"
cmp -s /tmp/seed/confirm${S}_$id.diff $out/patch.diff && echo "patch.diff == worktree diff" || echo "NOTE patch.diff differs from worktree diff"
(cd $out && PYTHONPATH=/repo/src timeout 900 /venv/bin/python demo.py > /tmp/seed/confirm${S}_$id.demo0.log 2>&1; echo "demo on unchanged tree: rc=$?")
(cd $out && PYTHONPATH=$wt/src timeout 900 /venv/bin/python demo.py > /tmp/seed/confirm${S}_$id.demo1.log 2>&1; echo "demo on changed tree: rc=$?")
if [ "$2" = full ]; then
  cd $wt && PYTHONPATH=$wt/src /venv/bin/python -m pytest -q -p no:cacheprovider --timeout=900 -x --co -q tests >/dev/null 2>&1
  PYTHONPATH=$wt/src /venv/bin/python -m pytest -q -p no:cacheprovider --timeout=900 tests -rf 2>&1 | grep '^FAILED\|^ERROR' | sed 's/ - .*//' | sed 's/^FAILED //; s/^ERROR //' | sed 's#/#.#g; s#\.py::#::#' | sort > /tmp/seed/confirm${S}_$id.fail.txt
  sort /tmp/seed/baseline_fail.txt > /tmp/seed/baseline_sorted.txt
  if diff -q /tmp/seed/confirm${S}_$id.fail.txt /tmp/seed/baseline_sorted.txt >/dev/null; then echo "full suite: failing set == baseline ($(wc -l < /tmp/seed/confirm${S}_$id.fail.txt))"; else echo "full suite: failing set DIFFERS"; diff /tmp/seed/confirm${S}_$id.fail.txt /tmp/seed/baseline_sorted.txt | head; fi
fi
