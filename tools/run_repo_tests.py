#!/usr/bin/env python3
"""Run the repository's pinned suite in parallel (one pytest per test file) and compare the
set of passing tests with /root/.vp/BASELINE.json's stable_pass.  Usage: run_repo_tests.py [repo]"""
import json, os, subprocess, sys, glob, tempfile, xml.etree.ElementTree as ET
from concurrent.futures import ThreadPoolExecutor
repo = sys.argv[1] if len(sys.argv) > 1 else "/repo"
base = set(json.load(open("/root/.vp/BASELINE.json"))["stable_pass"])
files = sorted(glob.glob(os.path.join(repo, "tests", "**", "test_*.py"), recursive=True))
out = tempfile.mkdtemp(prefix="repotests_", dir="/var/tmp")
def run(f):
    x = os.path.join(out, os.path.relpath(f, repo).replace("/", "_") + ".xml")
    env = dict(os.environ); env.pop("EXO_LANG_EXO_VERIF", None)
    env["PYTHONPATH"] = os.path.join(repo, "src")
    subprocess.run(["/venv/bin/python", "-m", "pytest", "-q", "-p", "no:cacheprovider", "--timeout=3600",
                    "--continue-on-collection-errors", f"--junitxml={x}", os.path.relpath(f, repo)],
                   cwd=repo, env=env, capture_output=True, text=True)
    return x
with ThreadPoolExecutor(16) as ex:
    xs = list(ex.map(run, files))
passed = set()
for x in xs:
    if not os.path.exists(x): continue
    for tc in ET.parse(x).getroot().iter("testcase"):
        if not any(c.tag in ("failure", "error", "skipped") for c in tc):
            passed.add(f"{tc.get('classname')}::{tc.get('name')}")
missing = sorted(base - passed)
print(f"passed={len(passed)} baseline={len(base)} baseline_missing={len(missing)}")
for m in missing[:40]: print("  MISSING", m)
import shutil; shutil.rmtree(out, ignore_errors=True)
sys.exit(1 if missing else 0)
