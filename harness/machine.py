"""Run batches of units through spec/ExoMachine.tla with TLC and collect census verdicts."""
from __future__ import annotations

import json
import os

from .common import MachineryError, run_tlc, tlc_failure_excerpt


class BatchResult:
    def __init__(self):
        self.verdicts = {}  # (unit index, input index) 0-based -> verdict string
        self.action_coverage = {}  # action name -> states generated through it (first batch, TLC -coverage 1)
        self.terminals = {}  # (unit index, input index) -> number of terminal states (> 1 when TLC branched)
        self.steps = {}  # (unit index, input index) -> length of the behaviour (machine steps)
        self.scope = {}  # unit index -> WellScoped verdict of the spec (ExoProgram!WellScoped)
        self.states = 0
        self.generated = 0
        self.wall = 0.0
        self.tlc_runs = 0


def _size(unit):
    return sum(len(b["cells"]) + 8 for inp in unit["inputs"] for side in inp.values()
               if isinstance(side, dict) and "bufs" in side for b in side["bufs"]) + 200


def run_units(units, workdir, stepbound=6000, timeout=1500, max_batch_bytes=24_000_000, workers=None, coverage=False):
    """Run every (unit, input) of `units` (all must have >= 1 input).  Returns BatchResult.

    A TLC run that ends with anything but "No error has been found" in census mode is a
    machinery failure."""
    res = BatchResult()
    todo = [(k, u) for k, u in enumerate(units) if u["inputs"]]
    batches, cur, cur_sz = [], [], 0
    for k, u in todo:
        s = len(json.dumps(u))
        if cur and cur_sz + s > max_batch_bytes:
            batches.append(cur)
            cur, cur_sz = [], 0
        cur.append((k, u))
        cur_sz += s
    if cur:
        batches.append(cur)
    for bi, batch in enumerate(batches):
        path = os.path.join(workdir, f"batch_{bi}.json")
        with open(path, "w") as f:
            json.dump({"units": [u for _, u in batch], "stepbound": stepbound}, f)
        r = run_tlc("ExoMachine", "ExoMachine.cfg", workdir, env={"EXO_BATCH": path},
                    timeout=timeout, workers=workers, extra=("-coverage", "1") if (coverage and bi == 0) else ())
        if coverage and bi == 0:
            # per-action counts of the first batch (TLC -coverage): every action of the machine must have been taken
            import re
            for m in re.finditer(r"^<(\w+) line \d+, col \d+ to line \d+, col \d+ of module ExoMachine>: (\d+):(\d+)", r.stdout, re.M):
                res.action_coverage[m.group(1)] = res.action_coverage.get(m.group(1), 0) + int(m.group(3))
        res.tlc_runs += 1
        res.wall += r.wall
        res.states += r.distinct
        res.generated += r.generated
        if not r.ok:
            names = [u["name"] for _, u in batch]
            raise MachineryError("TLC did not complete cleanly on ExoMachine batch "
                                 f"{bi} (units {names[:5]}...):\n" + tlc_failure_excerpt(r.stdout))
        for rec in r.records:
            if isinstance(rec, dict) and "u" in rec and "i" in rec:
                k = batch[rec["u"] - 1][0]
                key = (k, rec["i"] - 1)
                # a unit that lets TLC branch (iteration orders of parallel loops) ends in several terminal states per
                # input: the input's verdict is "ok" only if every one of them is
                if res.verdicts.get(key, "ok") == "ok":
                    res.verdicts[key] = rec["v"]
                res.steps[key] = max(res.steps.get(key, 0), rec.get("n", 0))
                res.terminals[key] = res.terminals.get(key, 0) + 1
                if rec["i"] == 1:
                    res.scope[k] = (bool(rec.get("wsa", True)), bool(rec.get("wsb", True)))
        os.unlink(path)
    for k, u in todo:
        for i in range(len(u["inputs"])):
            res.verdicts.setdefault((k, i), "inconclusive:stepbound")
    return res


def replay_unit(unit, input_index, workdir, stepbound=60000, timeout=600):
    """Re-run one (unit, input) with the property as a real INVARIANT; returns TLC's
    counterexample text (the witness behaviour) or None if it does not fail."""
    u = dict(unit)
    u["inputs"] = [unit["inputs"][input_index]]
    path = os.path.join(workdir, "replay_batch.json")
    with open(path, "w") as f:
        json.dump({"units": [u], "stepbound": stepbound}, f)
    r = run_tlc("ExoMachine", "ExoMachineReplay.cfg", workdir, env={"EXO_BATCH": path},
                timeout=timeout, workers=1, want_records=False)
    if r.violated:
        return r.stdout
    return None


def classify(v: str) -> str:
    """ok | skip (input not admissible) | inconclusive | safety | heap | race | trace | differ | ctrace"""
    if v == "ok":
        return "ok"
    if v in ("A-invalid",):
        return "skip"
    if v.startswith("inconclusive"):
        return "inconclusive"
    kind = v.split(":", 1)[1] if ":" in v else v
    k = kind.split("@")[0]
    if k in ("inexact", "divzero", "winext"):
        return "inconclusive"
    return v.split(":")[0]


def trap_kind(v: str) -> str:
    if ":" not in v:
        return ""
    return v.split(":", 1)[1].split("@")[0]
