"""Corpus I: a systematic matrix of index-expression forms (the random corpus B samples the same grammar but
rarely hits the corners): literal-minus-expression under / and % with dividends that are always <= 0, negative
exact multiples of the divisor, quotients of scaled sums whose divisor factors in several ways, every nesting of
two operators with and without the parentheses that matter, guards / bounds / sizes using the same forms, and
arguments whose range comes from assertions.  Fixed loop bounds where the exact index is to be observed (no
wrapping `% 8`), a size-driven variant wrapped into the buffer otherwise."""
from __future__ import annotations

from .genmod import load_generated

# (name, index expression over i (outer, seq(lo_i, hi_i)) and j (inner, seq(0, hi_j)), lo_i, hi_i, hi_j, min, max)
EXACT = [
    # literal minus expression, dividend always <= 0 (non-zero lower bound)
    ("rsub_mod", "4 + (3 - i) % 4", 4, 9, 1),
    ("rsub_div", "(3 - i) / 2 + 4", 4, 9, 1),
    ("rsub_div2", "(0 - i) / 3 + 4", 1, 9, 1),
    ("rsub_mix", "(7 - 2 * i) / 4 + 6 + (1 - i) % 3", 4, 8, 1),
    # negative exact multiples of the divisor
    ("negmul_div", "(i - 4) / 4 + 1", 0, 9, 1),
    ("negmul_div2", "(2 * i - 8) / 2 + 4", 0, 6, 1),
    ("negmul_mod", "(i - 6) % 3 + (i - 6) / 3 + 2", 0, 9, 1),
    # a constant outside [0, d) that a non-zero lower bound (or a negative coefficient) brings back into [0, d)
    ("cshift_div", "(i - 3) / 4 + 1", 3, 7, 1),
    ("cshift_div2", "(5 - i) / 4 + 1", 2, 5, 1),
    ("cshift_div3", "(4 * j + i - 2) / 4 + 1", 2, 6, 3),
    ("cshift_div4", "(i + 9) / 4", 3, 7, 1),
    ("cshift_mod", "(i - 3) % 4 + (i - 3) / 4", 3, 7, 1),
    ("cshift_mod2", "(4 * j + i - 2) % 4 + (i + 6) % 4", 2, 6, 3),
    # quotient / remainder of a scaled sum: the divisor factors in several ways
    ("pair_8_16", "(8 * i + j) / 16", 0, 4, 8),
    ("pair_2_8", "(2 * i + j) / 8", 0, 8, 2),
    ("pair_4_8", "(4 * i + j) / 8", 0, 4, 4),
    ("pair_2_6", "(2 * i + j) / 6", 0, 6, 2),
    ("pair_3_6", "(3 * i + j) / 6", 0, 4, 3),
    ("pair_4_16", "(4 * i + j) / 16", 0, 8, 4),
    ("pair_2_4", "(2 * i + j) / 4", 0, 4, 2),
    ("pair_3_12", "(3 * i + j) / 12", 0, 8, 3),
    ("pair_6_12", "(6 * i + j) / 12", 0, 4, 6),
    ("pairm_8_16", "(8 * i + j) % 16", 0, 4, 8),
    ("pairm_2_6", "(2 * i + j) % 6", 0, 6, 2),
    ("pairm_4_8", "(4 * i + j) % 8 + (4 * i + j) / 8", 0, 4, 4),
    # precedence: a product whose right operand is a quotient / remainder, and the other nestings
    ("prec_mul_div", "4 * (i / 4)", 0, 9, 1),
    ("prec_mul_mod", "2 * (i % 4)", 0, 9, 1),
    ("prec_div_mul", "(4 * i) / 3", 0, 6, 1),
    ("prec_mod_mul", "(3 * i) % 4", 0, 9, 1),
    ("prec_div_div", "(i / 2) / 2", 0, 16, 1),
    ("prec_mod_div", "(i % 6) / 2 + i / 6", 0, 12, 1),
    ("prec_div_mod", "(i / 2) % 3", 0, 12, 1),
    ("prec_sub_sub", "8 - (i - j)", 0, 5, 4),
    ("prec_sub_add", "8 - (i + j)", 0, 4, 4),
    ("prec_sub_sub2", "(8 - i) - j", 0, 4, 4),
    ("prec_neg", "8 + -(i + j)", 0, 4, 4),
    ("prec_neg2", "8 + -i + j", 0, 4, 4),
    ("prec_negsum", "-(i - 7)", 0, 8, 1),
    ("prec_negsum2", "-(i + j) + 8", 0, 4, 4),
    ("prec_negsum3", "-(i - 3 - j)", 0, 4, 2),
    ("prec_negmul", "-(2 * i - 8) / 2", 0, 5, 1),
    ("prec_mul_add", "2 * (i + j)", 0, 3, 3),
    ("prec_mul_sub", "8 + 2 * (j - i)", 0, 4, 4),
    ("prec_add_mul", "2 * i + j", 0, 3, 2),
]


def _bounds(expr, lo_i, hi_i, hi_j):
    vals = [eval(expr.replace("/", "//"), {"i": i, "j": j}) for i in range(lo_i, hi_i) for j in range(hi_j)]
    return min(vals), max(vals)


def _src():
    L = ["from __future__ import annotations", "from exo import proc", ""]
    names = []
    for nm, e, lo_i, hi_i, hi_j in EXACT:
        mn, mx = _bounds(e, lo_i, hi_i, hi_j)
        assert mn >= 0, (nm, mn)
        # (a) exact index, fixed bounds: h has exactly the attained extent
        names.append(f"im_{nm}")
        L += ["@proc", f"def im_{nm}(x: R[{hi_i}, {hi_j}], h: R[{mx + 1}]):",
              f"    for i in seq({lo_i}, {hi_i}):", f"        for j in seq(0, {hi_j}):",
              f"            h[{e}] += x[i, j]", ""]
        # (b) the same form in a guard, a bound and an allocation size
        names.append(f"ig_{nm}")
        L += ["@proc", f"def ig_{nm}(x: R[{hi_i}, {hi_j}], h: R[{mx + 2}]):",
              f"    for i in seq({lo_i}, {hi_i}):", f"        for j in seq(0, {hi_j}):",
              f"            if {e} >= {(mn + mx + 1) // 2}:", f"                h[{e}] += x[i, j]",
              f"            else:", f"                h[{mx + 1}] += x[i, j]",
              f"            for k in seq(0, {e} - {mn}):", f"                h[k] += 1.0", ""]
    # size-driven variants (range from assertions), wrapped into the buffer
    for nm, e, pre in [("arg_rsub", "(8 - n) / 2 + n / 2", "n >= 8"), ("arg_rsub2", "(3 - n) % 4 + (3 - n) / 4 + n", "n >= 3"),
                       ("arg_neg", "(n - 12) / 4 + 3", "n <= 12"), ("arg_pair", "(4 * n + m) / 8", "m < 4"),
                       ("arg_prec", "2 * (n / 2) + 3 * (m % 2)", "m <= n")]:
        names.append(f"ia_{nm}")
        L += ["@proc", f"def ia_{nm}(n: size, m: size, x: R[16], h: R[16]):", f"    assert {pre}", "    assert n <= 12",
              "    assert m <= 12", f"    h[({e}) % 16] += x[n]", f"    for i in seq(0, m):",
              f"        h[({e} + i) % 16] += x[(i + {e}) % 16]", ""]
    return "\n".join(L), names


_s, _names = _src()
_mod = load_generated("exoverif_indexmat", _s)
PROCS = [getattr(_mod, n) for n in _names]
CONFIGS = []
