"""Corpus N: name clashes.  Distinct symbols that share a display name: an argument shadowed by a loop
iterator or by an allocation, nested and sibling iterators of the same name, clashes that only arise
through scheduling (inline of a callee whose iterator is named like a caller argument, divide_loop with
new iterator names equal to argument names).  Everything that identifies variables by name instead of by
symbol (printing, C identifiers, partial_eval, pattern arguments, simplify's fact tables) is exercised here."""
from __future__ import annotations

from exo import proc, DRAM
from exo.stdlib.scheduling import inline, inline_window, divide_loop, rename


@proc
def nc_shadow_arg(i: index, n: size, A: f32[4, n]):
    assert i >= 0
    assert i < 4
    for i in seq(0, n):
        A[0, i] = 2.0 * A[0, i]
    A[i, 0] = 1.0


@proc
def nc_shadow_size(n: size, m: size, A: f32[n, m]):
    for n in seq(0, m):
        A[0, n] = A[0, n] + 1.0
    for k in seq(0, n):
        A[k, 0] = 3.0


@proc
def nc_nested(n: size, A: f32[n, n]):
    for i in seq(0, n):
        for i in seq(0, n):
            A[i, i] = 2.0 * A[i, i]
        A[i, 0] = 5.0


@proc
def nc_alloc(t: index, A: f32[4]):
    assert t >= 0
    assert t < 4
    for j in seq(0, 4):
        t: f32
        t = A[j]
        A[j] = t * 2.0
    A[t] = 7.0


@proc
def nc_bool(b: bool, n: size, A: f32[n]):
    for b in seq(0, n):
        A[b] = 4.0
    if b:
        A[0] = 9.0


@proc
def _nc_scale_row(n: size, x: [f32][n]):
    for i in seq(0, n):
        x[i] = 2.0 * x[i]


@proc
def _nc_one_row(i: index, n: size, A: f32[4, n]):
    assert i >= 0
    assert i < 4
    _nc_scale_row(n, A[i, 0:n])


nc_inlined = rename(inline_window(inline(_nc_one_row, "_nc_scale_row(_)"), "x = _"), "nc_inlined")


@proc
def _nc_div(k: index, n: size, A: f32[8]):
    assert k >= 0
    assert k < 8
    assert n <= 8
    for j in seq(0, 8):
        A[j] = 2.0 * A[j]
    A[k] = 0.0
    for j in seq(0, n):
        A[j] = A[j] + 1.0


nc_div = rename(divide_loop(_nc_div, "j", 2, ["k", "n"], perfect=True), "nc_div")


@proc
def nc_siblings(n: size, x: f32[n], y: f32[n]):
    for i in seq(0, n):
        t: f32
        t = x[i]
        y[i] = t
    for i in seq(0, n):
        t: f32
        t = y[i] * 2.0
        x[i] = t


# a window statement inside an inlined callee named like a window argument of the caller (strides of both are live)
@proc
def _nc_colsum(n: size, x: [f32][n, n], z: [f32][n]):
    assert n >= 2
    y = x[0:n, 1]
    for j in seq(0, n):
        z[j] += y[j]


@proc
def _nc_win_caller(n: size, x: [f32][n, n], y: [f32][n]):
    assert n >= 2
    _nc_colsum(n, x, y)


nc_win_inlined = rename(inline(_nc_win_caller, "_nc_colsum(_)"), "nc_win_inlined")


PROCS = [nc_win_inlined, nc_shadow_arg, nc_shadow_size, nc_nested, nc_alloc, nc_bool, nc_inlined, nc_div, nc_siblings]
CONFIGS = []


# ---- factories: procedures (re)built from source on demand, so that a check can vary what happened in the process
#      before they were built (e.g. the global symbol counter, C18)
_FACTORY_SRC = """from __future__ import annotations
from exo import proc

@proc
def ncf_tap(acc: [f32][1], w: [f32][4]):
    for i in seq(0, 4):
        acc[0] += w[i]

@proc
def ncf_blur(n: size, y: f32[n], x: f32[n + 3]):
    for i in seq(0, n):
        y[i] = 0.0
        ncf_tap(y[i:i + 1], x[i:i + 4])

@proc
def ncf_rowsum(n: size, A: f32[n, n + 3], o: f32[n]):
    for i in seq(0, n):
        o[i] = 0.0
        ncf_tap(o[i:i + 1], A[i, i:i + 4])
"""
_factory_calls = [0]


def _make(which):
    from exo.stdlib.scheduling import simplify
    from .genmod import load_generated
    _factory_calls[0] += 1
    m = load_generated(f"exoverif_ncfactory_{_factory_calls[0]}", _FACTORY_SRC)
    p = getattr(m, which)
    p = inline(p, p.find("ncf_tap(_)"))
    p = inline_window(p, p.find("acc = _"))
    p = inline_window(p, p.find("w = _"))
    return simplify(p)


FACTORIES = {"ncf_blur": lambda: _make("ncf_blur"), "ncf_rowsum": lambda: _make("ncf_rowsum")}
