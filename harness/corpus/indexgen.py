"""Corpus B: generated procedures whose indices, bounds, sizes and conditions are random
quasi-affine expressions (+, -, scaling, / and % by positive literals, negative intermediates,
non-zero lower bounds, shadowed iterator names).  Deterministic: a fixed core (seed 0) plus
VERIF_SEED-dependent extras."""
from __future__ import annotations

import os
import random

from .genmod import load_generated

N_CORE = int(os.environ.get("VERIF_INDEXGEN_CORE", "36"))
N_EXTRA = int(os.environ.get("VERIF_INDEXGEN_EXTRA", "12"))


def _gen(rng, d, vars_):
    if d == 0 or rng.random() < 0.25:
        return rng.choice(vars_) if rng.random() < 0.7 else str(rng.randrange(-3, 5))
    k = rng.random()
    if k < 0.3:
        return f"({_gen(rng, d - 1, vars_)} + {_gen(rng, d - 1, vars_)})"
    if k < 0.5:
        return f"({_gen(rng, d - 1, vars_)} - {_gen(rng, d - 1, vars_)})"
    if k < 0.65:
        return f"({rng.choice([2, 3, 4])} * {_gen(rng, d - 1, vars_)})"
    if k < 0.82:
        return f"({_gen(rng, d - 1, vars_)} / {rng.choice([2, 3, 4])})"
    return f"({_gen(rng, d - 1, vars_)} % {rng.choice([2, 3, 4])})"


def _proc_src(rng, name):
    lo_i, lo_j = rng.choice([0, 0, 1, 2]), rng.choice([0, 0, 1])
    V = ["i", "j", "n"]
    e1, e2, e3 = _gen(rng, 3, V), _gen(rng, 3, V), _gen(rng, 2, ["i", "j"])
    e4 = _gen(rng, 2, ["i", "n"])
    shape = rng.choice(["plain", "guard", "bounds", "alloc", "shadow", "divfact", "divfact"])
    L = ["@proc", f"def {name}(n: size, x: R[8], y: R[8]):"]
    if shape == "plain":
        L += [f"    for i in seq({lo_i}, {lo_i} + n):",
              f"        for j in seq({lo_j}, {lo_j + rng.choice([1, 2, 3])}):",
              f"            x[({e1}) % 8] += 1.0",
              f"            y[(({e3}) % 4 + 4) % 8] += x[({e2}) % 8]"]
    elif shape == "guard":
        L += [f"    for i in seq({lo_i}, {lo_i} + n):",
              f"        for j in seq({lo_j}, {lo_j + rng.choice([1, 2, 3])}):",
              f"            x[({e1}) % 8] += 1.0",
              f"            if {e2} >= {rng.randrange(-2, 3)}:",
              f"                y[({e3}) % 4 + 2 * (({e3}) % 2)] += 2.0",
              f"            else:",
              f"                y[({e2}) % 8] += 3.0"]
    elif shape == "bounds":
        L += [f"    for i in seq({lo_i}, {lo_i} + n):",
              f"        for j in seq(({e4}) % 3, ({e4}) % 3 + {rng.choice([0, 1, 2])}):",
              f"            x[({e1}) % 8] += 1.0",
              f"        if ({e4}) / 2 == {rng.randrange(-1, 2)}:",
              f"            y[i % 8] = 4.0"]
    elif shape == "alloc":
        L += [f"    for i in seq({lo_i}, {lo_i} + n):",
              f"        t: R[({e4}) % 3 + 1]",
              f"        t[0] = x[({_gen(rng, 2, ['i', 'n'])}) % 8]",
              f"        for j in seq(0, ({e4}) % 3 + 1):",
              f"            t[j] = x[({e3}) % 8] + 1.0",
              f"        y[({_gen(rng, 3, ['i', 'n'])}) % 8] += t[({e4}) % 3]"]
    elif shape == "divfact":
        # a guard fixes the quotient; the remainder of the *same* expression is used below it
        E = rng.choice(["i", "i + j", f"i + {rng.choice([1, 2, 3])}", "2 * i + j", "i - 1"])
        M = rng.choice([2, 3, 4])
        c = rng.choice([0, 1, 1, 2, -1])
        lhs, rhs = (f"({E}) / {M}", str(c)) if rng.random() < 0.7 else (str(c), f"({E}) / {M}")
        L += [f"    for i in seq({lo_i}, {lo_i} + n):",
              f"        for j in seq({lo_j}, {lo_j + rng.choice([1, 2, 3])}):",
              f"            if {lhs} == {rhs}:",
              f"                y[(({E}) % {M} + {rng.choice([0, 1, 4])}) % 8] += x[({E}) % {M}]",
              f"            else:",
              f"                x[({e3}) % 8] += 1.0"]
    else:  # the same iterator name bound twice in sequence and nested under different bounds
        L += [f"    for i in seq({lo_i}, {lo_i} + n):",
              f"        x[({_gen(rng, 2, ['i', 'n'])}) % 8] += 1.0",
              f"    for i in seq(0, 3):",
              f"        for j in seq({lo_j}, {lo_j} + 2):",
              f"            if ({e3}) % 3 == 1:",
              f"                y[({e1}) % 8] += x[({e3}) % 8]"]
    return "\n".join(L) + "\n"


def _build():
    hdr = "from __future__ import annotations\nfrom exo import proc\n\n"
    procs = []
    rejected = 0

    def one(rng, name):
        nonlocal rejected
        for attempt in range(20):
            src = hdr + _proc_src(rng, name)
            try:
                mod = load_generated(f"exoverif_indexgen_{name}", src)
                return getattr(mod, name)
            except Exception:
                rejected += 1
        return None

    rng = random.Random(20240917)
    for t in range(N_CORE):
        p = one(rng, f"ix{t}")
        if p is not None:
            procs.append(p)
    seed = os.environ.get("VERIF_EFF_SEED", "0")
    rng2 = random.Random("indexgen-extra-" + seed)
    for t in range(N_EXTRA):
        p = one(rng2, f"ixs{t}")
        if p is not None:
            procs.append(p)
    return procs, rejected


PROCS, FRONTEND_REJECTED = _build()
CONFIGS = []
