"""Corpus D: parallel loops at every nesting depth, under if, in callees; racy and race-free."""
from __future__ import annotations

from exo import proc, config


@proc
def par_ok(n: size, x: f32[n], y: f32[n]):
    for i in par(0, n):
        y[i] = x[i] + 1.0


@proc
def par_read_shared(n: size, x: f32[n], y: f32[n], s: f32):
    for i in par(0, n):
        y[i] = x[0] * s


@proc
def par_nested_ok(n: size, m: size, x: f32[n, m]):
    for i in par(0, n):
        for j in par(0, m):
            x[i, j] = x[i, j] * 2.0


@proc
def par_in_seq_racy(n: size, m: size, x: f32[n], acc: f32[m]):
    for j in seq(0, m):
        for i in par(0, n):
            acc[j] += x[i]


@proc
def par_in_seq_ok(n: size, m: size, x: f32[n, m]):
    for j in seq(0, m):
        for i in par(0, n):
            x[i, j] = 1.0


@proc
def par_under_if_racy(n: size, t: index, x: f32[n + 1]):
    if t > 0:
        for i in par(0, n):
            x[i + 1] = x[i]


@proc
def par_write_same(n: size, x: f32[n], out: f32):
    for i in par(0, n):
        out = x[i]


@proc
def par_reduce(n: size, x: f32[n], out: f32):
    for i in par(0, n):
        out += x[i]


@proc
def par_neighbour(n: size, x: f32[n + 1], y: f32[n + 1]):
    for i in par(0, n):
        y[i] = x[i] + x[i + 1]


@proc
def par_inplace_neighbour(n: size, x: f32[n + 1]):
    for i in par(0, n):
        x[i] = x[i + 1]


@proc
def par_tmp(n: size, x: f32[n], y: f32[n]):
    for i in par(0, n):
        t: f32
        t = x[i]
        y[i] = t * t


@proc
def par_shared_tmp(n: size, x: f32[n], y: f32[n]):
    t: f32
    for i in par(0, n):
        t = x[i]
        y[i] = t * t


@proc
def row_fill(m: size, r: [f32][m], v: f32):
    for j in seq(0, m):
        r[j] = v


@proc
def row_acc(m: size, r: [f32][m], a: [f32][1]):
    for j in seq(0, m):
        a[0] += r[j]


@proc
def par_call_ok(n: size, m: size, A: f32[n, m], v: f32):
    for i in par(0, n):
        row_fill(m, A[i, 0:m], v)


@proc
def par_call_racy(n: size, m: size, A: f32[n, m], s: f32[1]):
    for i in par(0, n):
        row_acc(m, A[i, 0:m], s[0:1])


@proc
def callee_with_par_racy(n: size, x: f32[n], o: f32[1]):
    for i in par(0, n):
        o[0] = x[i]


@proc
def calls_par_callee(n: size, x: f32[n], o: f32[1]):
    for k in seq(0, 2):
        callee_with_par_racy(n, x, o)


@proc
def par_strided(n: size, x: f32[2 * n]):
    for i in par(0, n):
        x[2 * i] = x[2 * i + 1]


@proc
def par_overlap_mod(n: size, x: f32[4]):
    for i in par(0, n):
        x[i % 4] = 1.0


@proc
def par_deep(n: size, m: size, x: f32[n, m], y: f32[m]):
    for i in seq(0, n):
        if i > 0:
            for j in par(0, m):
                y[j] += x[i, j]
        else:
            for j in par(0, m):
                y[0] = x[i, j]


# ---- alias matrix: the same memory reached through the buffer, a window of it and a window of a window, bound before
#      or inside the loop; every pairing of (read path, write path) with and without a cross-iteration conflict
def _alias_src():
    paths = {"direct": "x[{i}]", "w1": "a[{i}]", "w2": "b[{i}]"}
    # a = x[1:n+2] (a[k] = x[k+1]), b = a[0:n+1] (b[k] = x[k+1])
    L = ["from __future__ import annotations", "from exo import proc", ""]
    names = []
    for where in ("before", "inside"):
        for rp in paths:
            for wp in paths:
                for conf in ("conf", "free"):
                    nm = f"pa_{where}_{rp}_{wp}_{conf}"
                    # write cell x[i+1] (through wp); read cell x[i+2] (conflict with the next iteration's write)
                    # or z[i] (conflict-free)
                    wi = "i + 1" if wp == "direct" else "i"
                    ri = "i + 2" if rp == "direct" else "i + 1"
                    wr = paths[wp].format(i=wi)
                    rd = paths[rp].format(i=ri) if conf == "conf" else "z[i]"
                    if conf == "free" and rp != "direct":
                        continue
                    names.append(nm)
                    L += ["@proc", f"def {nm}(n: size, x: f32[n + 3], z: f32[n]):"]
                    wins = ["a = x[1:n + 3]", "b = a[0:n + 2]"]
                    if where == "before":
                        L += ["    " + w for w in wins]
                        L += ["    for i in seq(0, n):", f"        {wr} = {rd} + 1.0"]
                    else:
                        L += ["    for i in seq(0, n):"] + ["        " + w for w in wins] + [f"        {wr} = {rd} + 1.0"]
                    L += [""]
    return "\n".join(L), names


def _load_alias():
    from .genmod import load_generated
    src, names = _alias_src()
    mod = load_generated("exoverif_paralias", src)
    return [getattr(mod, n) for n in names]


# ---- a loop whose body calls a procedure that has an equivalent, configuration-writing variant (call_eqv, then
#      parallelize_loop: every iteration would write the same configuration field)
@config
class ParCfg:
    scale: f32


@proc
def par_scal1(alpha: f32, x: [f32][1]):
    x[0] = x[0] * alpha


@proc
def par_calls_scal(n: size, x: f32[n], a: f32):
    for i in seq(0, n):
        par_scal1(a, x[i:i + 1])


def _par_eqv():
    from exo.stdlib.scheduling import bind_config, rename
    return {"par_scal1_cfg": rename(bind_config(par_scal1, par_scal1.find("alpha"), ParCfg, "scale"), "par_scal1_cfg")}


EQV_PROCS = _par_eqv()

PROCS = _load_alias() + [par_calls_scal, par_ok, par_read_shared, par_nested_ok, par_in_seq_racy, par_in_seq_ok, par_under_if_racy,
         par_write_same, par_reduce, par_neighbour, par_inplace_neighbour, par_tmp, par_shared_tmp,
         par_call_ok, par_call_racy, calls_par_callee, par_strided, par_overlap_mod, par_deep]
CONFIGS = [ParCfg]
