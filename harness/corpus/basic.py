"""Corpus A: small procedures covering every statement/expression constructor and the
side-condition matrix of DESIGN 5.2 (cells where a primitive's condition holds and fails)."""
from __future__ import annotations

from exo import proc, config, DRAM
from exo.libs.externs import relu, select, fmaxf


@config
class CfgA:
    a: index
    b: f32
    flag: bool


@config
class CfgB:
    s: f32
    k: index


# ---------------------------------------------------------------- plain loops
@proc
def axpy(n: size, a: f32, x: f32[n], y: f32[n]):
    for i in seq(0, n):
        y[i] += a * x[i]


@proc
def scale2d(n: size, m: size, x: f32[n, m], y: f32[n, m]):
    for i in seq(0, n):
        for j in seq(0, m):
            y[i, j] = 2.0 * x[i, j] + 1.0


@proc
def gemv(n: size, m: size, A: f32[n, m], x: f32[m], y: f32[n]):
    for i in seq(0, n):
        y[i] = 0.0
        for j in seq(0, m):
            y[i] += A[i, j] * x[j]


@proc
def matmul(n: size, m: size, k: size, A: f32[n, k], B: f32[k, m], C: f32[n, m]):
    for i in seq(0, n):
        for j in seq(0, m):
            for kk in seq(0, k):
                C[i, j] += A[i, kk] * B[kk, j]


@proc
def lowbound(n: size, x: f32[n + 3], y: f32[n + 3]):
    for i in seq(2, n + 2):
        y[i] = x[i - 1] + x[i + 1]
    for i in seq(0, 2):
        y[i] = 0.0


@proc
def two_loops_same(n: size, x: f32[n], y: f32[n], z: f32[n]):
    for i in seq(0, n):
        y[i] = x[i] + 1.0
    for j in seq(0, n):
        z[j] = x[j] * 3.0


@proc
def two_loops_dep(n: size, x: f32[n], y: f32[n]):
    assert n >= 2
    for i in seq(0, n):
        y[i] = x[i] + 1.0
    for j in seq(0, n):
        x[j] = y[n - 1 - j]


@proc
def two_loops_difflo(x: f32[6], y: f32[6]):
    for i in seq(0, 4):
        x[i] = 1.0
    for j in seq(2, 4):
        y[j] = x[j] + 2.0


@proc
def consec_loops(n: size, x: f32[n + 4]):
    for i in seq(0, 2):
        x[i] = x[i] * 2.0
    for i in seq(2, n + 4):
        x[i] = x[i] * 2.0


@proc
def zero_trip(n: size, x: f32[n]):
    for i in seq(2, 2):
        x[0] = 1.0
    for i in seq(0, n):
        x[i] = 2.0 * x[i]


@proc
def idem_loop(n: size, m: size, x: f32[n], y: f32[n]):
    for j in seq(0, m):
        for i in seq(0, n):
            y[i] = x[i]


@proc
def nonidem_loop(n: size, m: size, x: f32[n], y: f32[n]):
    for j in seq(0, m):
        for i in seq(0, n):
            y[i] += x[i]


@proc
def stmts_indep(n: size, x: f32[n], y: f32[n], z: f32[n]):
    assert n >= 2
    x[0] = 1.0
    y[0] = 2.0
    z[1] = x[0] + y[0]
    y[1] = 4.0
    z[0] = z[1]


@proc
def loop_carried(n: size, x: f32[n + 1]):
    for i in seq(0, n):
        x[i + 1] = x[i] + 1.0
        x[i] = 0.0


@proc
def guard_inside(n: size, x: f32[n], y: f32[n]):
    for i in seq(0, n):
        if i < n - 1:
            y[i] = x[i + 1]
        else:
            y[i] = x[0]


@proc
def if_chain(n: size, t: index, x: f32[n]):
    for i in seq(0, n):
        if t < 1:
            x[i] = 1.0
        if i == 0:
            x[i] += 2.0
        else:
            if t == i:
                x[i] += 3.0


@proc
def divmod_idx(n: size, x: f32[4 * n], y: f32[n, 4]):
    for i in seq(0, 4 * n):
        y[i / 4, i % 4] = x[i]


@proc
def neg_intermediate(n: size, k: index, x: f32[n + 4], y: f32[n]):
    assert k >= -2
    assert k <= 2
    for i in seq(0, n):
        y[i] = x[i + k + 2] + x[(i + k + 8) / 2 - (k + 8) / 2 + 2]


@proc
def mod_wrap(x: f32[4], y: f32[8]):
    for i in seq(0, 8):
        y[i] = x[(i + 3) % 4]


@proc
def neg_mod(x: f32[4], y: f32[4]):
    for i in seq(0, 4):
        y[i] = x[(i - 3) % 4]


@proc
def neg_div(n: size, k: index, x: f32[8], y: f32[n]):
    assert k >= -3
    assert k <= 0
    assert n <= 4
    for i in seq(0, n):
        y[i] = x[(i + k - 1) / 2 + 2] + x[(i + k) % 3]


@proc
def neg_mod_arg(n: size, k: index, x: f32[5]):
    assert k >= -4
    assert k < 5
    for i in seq(0, n):
        x[(k - i) % 5] += 1.0


# ---------------------------------------------------------------- allocations
@proc
def stage_tmp(n: size, x: f32[n], y: f32[n]):
    for i in seq(0, n):
        t: f32
        t = x[i] * 2.0
        y[i] = t + 1.0


@proc
def tmp_vec(n: size, x: f32[n], y: f32[n]):
    t: f32[n]
    for i in seq(0, n):
        t[i] = x[i] + 1.0
    for i in seq(0, n):
        y[i] = t[i] * t[i]


@proc
def tmp2d(n: size, x: f32[n, 4], y: f32[n, 4]):
    for i in seq(0, n):
        t: f32[4]
        for j in seq(0, 4):
            t[j] = x[i, j]
        for j in seq(0, 4):
            y[i, 3 - j] = t[j]


@proc
def two_bufs(n: size, x: f32[n], y: f32[n]):
    a: f32[n]
    for i in seq(0, n):
        a[i] = x[i]
    b: f32[n]
    for i in seq(0, n):
        b[i] = a[i] + 1.0
    for i in seq(0, n):
        y[i] = b[i]


@proc
def two_bufs_live(n: size, x: f32[n], y: f32[n]):
    a: f32[n]
    for i in seq(0, n):
        a[i] = x[i]
    b: f32[n]
    for i in seq(0, n):
        b[i] = a[i] + 1.0
    for i in seq(0, n):
        y[i] = b[i] + a[i]


@proc
def big_tmp(n: size, x: f32[n + 2], y: f32[n]):
    t: f32[n + 2]
    for i in seq(0, n + 2):
        t[i] = x[i]
    for i in seq(0, n):
        y[i] = t[i] + t[i + 2]


@proc
def sliding(n: size, x: f32[n + 2], y: f32[n]):
    t: f32[n + 2]
    for i in seq(0, n):
        t[i] = x[i]
        t[i + 1] = x[i + 1]
        t[i + 2] = x[i + 2]
        y[i] = t[i] + t[i + 1] + t[i + 2]


@proc
def tmp8(x: f32[8], y: f32[8]):
    t: f32[8]
    for i in seq(0, 8):
        t[i] = x[i] + 1.0
    for i in seq(0, 8):
        y[i] = t[7 - i]


@proc
def tmp2x4(x: f32[2, 4], y: f32[2, 4]):
    t: f32[2, 4]
    for i in seq(0, 2):
        for j in seq(0, 4):
            t[i, j] = x[i, j] * 2.0
    for i in seq(0, 2):
        for j in seq(0, 4):
            y[i, j] = t[1 - i, j]


# ---------------------------------------------------------------- windows / calls
@proc
def addvec(n: size, dst: [f32][n], src: [f32][n]):
    for i in seq(0, n):
        dst[i] += src[i]


@proc
def fill(n: size, dst: [f32][n], v: f32):
    assert n >= 1
    for i in seq(0, n):
        dst[i] = v


@proc
def sum_to(n: size, acc: f32, src: [f32][n]):
    for i in seq(0, n):
        acc += src[i]


@proc
def rows(n: size, m: size, A: f32[n, m], B: f32[n, m]):
    for i in seq(0, n):
        addvec(m, A[i, 0:m], B[i, 0:m])


@proc
def cols(n: size, m: size, A: f32[n, m], B: f32[n, m]):
    for j in seq(0, m):
        addvec(n, A[0:n, j], B[0:n, j])


@proc
def win_stmt(n: size, A: f32[n + 2, n + 3], o: f32[n]):
    w = A[1:n + 2, 2:n + 3]
    for i in seq(0, n):
        v = w[i, 0:n]
        o[i] = v[i] + w[i, (i + 1) % 2] * 2.0


@proc
def win_arg(n: size, x: [f32][n], y: [f32][n]):
    for i in seq(0, n):
        y[i] = x[n - 1 - i]


@proc
def scalar_ref(n: size, x: f32[n], out: f32):
    out = 0.0
    sum_to(n, out, x[0:n])
    s: f32
    s = 1.0
    fill(n, x[0:n], s)


@proc
def call_pt(n: size, x: f32[n, 2], out: f32[n]):
    for i in seq(0, n):
        s: f32
        s = 0.0
        sum_to(2, s, x[i, 0:2])
        out[i] = s


@proc
def nested_calls(n: size, m: size, A: f32[n, m], B: f32[n, m], v: f32):
    assert m >= 1
    rows(n, m, A, B)
    for i in seq(0, n):
        fill(m, B[i, 0:m], v)


# ---------------------------------------------------------------- configs
@proc
def cfg_rw(n: size, x: f32[n], t: index):
    assert t >= 0
    CfgA.a = t
    for i in seq(0, n):
        if CfgA.flag:
            x[i] = x[i] * CfgA.b
    CfgA.b = 2.0


@proc
def cfg_set(v: f32, k: index):
    CfgB.s = v
    CfgB.k = k


@proc
def cfg_use(n: size, x: f32[n]):
    for i in seq(0, n):
        x[i] = x[i] + CfgB.s


@proc
def cfg_calls(n: size, x: f32[n], v: f32):
    cfg_set(v, 2)
    cfg_use(n, x)
    cfg_set(v, 3)
    CfgB.s = 1.0
    cfg_use(n, x)


@proc
def cfg_dead(n: size, x: f32[n], v: f32):
    CfgB.s = v
    CfgB.s = 2.0
    for i in seq(0, n):
        x[i] = x[i] * CfgB.s
    CfgB.k = 1


@proc
def bindable(n: size, x: f32[n], scale: f32):
    for i in seq(0, n):
        x[i] = x[i] * scale


# ---------------------------------------------------------------- externs / exprs
@proc
def relu_k(n: size, x: f32[n], y: f32[n]):
    for i in seq(0, n):
        y[i] = relu(x[i] - 3.0) + fmaxf(x[i], y[i])


@proc
def sel_k(n: size, x: f32[n], y: f32[n]):
    for i in seq(0, n):
        y[i] = select(x[i], y[i], x[i] * 2.0, y[i])


@proc
def exprs(n: size, a: f32, b: f32, x: f32[n], y: f32[n]):
    for i in seq(0, n):
        y[i] = (a * x[i] + b) * (x[i] + a) - -b + a * x[i]


@proc
def reduce_const(n: size, c: f32, x: f32[n], out: f32):
    out = 0.0
    for i in seq(0, n):
        out += c * x[i]


@proc
def writes_merge(n: size, x: f32[n], y: f32[n]):
    for i in seq(0, n):
        y[i] = x[i]
        y[i] += 2.0 * x[i]
        y[i] = 3.0
        y[i] = x[i] + 1.0


@proc
def assign_then_use(n: size, x: f32[n], y: f32[n]):
    for i in seq(0, n):
        t: f32
        t = x[i] + 1.0
        y[i] = t * t


@proc
def seq_par(n: size, m: size, x: f32[n, m]):
    for i in par(0, n):
        for j in seq(0, m):
            x[i, j] = x[i, j] + 1.0


# ---- triangular nests: inner bounds that mention the outer iterator (lower bound only, upper bound only, both)
@proc
def tri_lo(n: size, A: f32[n, n]):
    for i in seq(0, n):
        for j in seq(i, n):
            A[i, j] = A[i, j] * 2.0


@proc
def tri_hi(n: size, A: f32[n, n]):
    for i in seq(0, n):
        for j in seq(0, i + 1):
            A[i, j] = A[i, j] + 1.0


@proc
def tri_both(n: size, A: f32[n + 2, n + 2]):
    for i in seq(0, n):
        for j in seq(i, i + 2):
            A[i, j] = 3.0


PROCS = [
    tri_lo, tri_hi, tri_both,
    axpy, scale2d, gemv, matmul, lowbound, two_loops_same, two_loops_dep, two_loops_difflo,
    consec_loops, zero_trip, idem_loop, nonidem_loop, stmts_indep, loop_carried, guard_inside,
    if_chain, divmod_idx, neg_intermediate, mod_wrap, neg_mod, neg_div, neg_mod_arg, stage_tmp, tmp_vec, tmp2d, two_bufs,
    two_bufs_live, big_tmp, sliding, tmp8, tmp2x4, rows, cols, win_stmt, win_arg, scalar_ref,
    call_pt, nested_calls, cfg_rw, cfg_calls, cfg_dead, bindable, relu_k, sel_k, exprs,
    reduce_const, writes_merge, assign_then_use, seq_par,
]
CONFIGS = [CfgA, CfgB]
HELPERS = {"addvec": addvec, "fill": fill, "sum_to": sum_to, "cfg_set": cfg_set, "cfg_use": cfg_use}
