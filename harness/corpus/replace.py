"""Corpus F: kernels and candidate callees/instructions for replace (C05)."""
from __future__ import annotations

from exo import proc, instr, DRAM


@proc
def vadd(n: size, d: [f32][n], a: [f32][n], b: [f32][n]):
    for i in seq(0, n):
        d[i] = a[i] + b[i]


@proc
def vadd4(d: [f32][4], a: [f32][4], b: [f32][4]):
    for i in seq(0, 4):
        d[i] = a[i] + b[i]


@instr("vcopy4({dst_data}, {src_data});")
def vcopy4(dst: [f32][4], src: [f32][4]):
    assert stride(dst, 0) == 1
    assert stride(src, 0) == 1
    for i in seq(0, 4):
        dst[i] = src[i]


@proc
def vscale(n: size, s: f32, x: [f32][n]):
    assert n >= 2
    for i in seq(0, n):
        x[i] = x[i] * s


@proc
def vset(n: size, x: [f32][n], k: index):
    assert k >= 0
    assert k < n
    for i in seq(0, n):
        x[i] = 0.0
    x[k] = 1.0


@proc
def axpy_c(n: size, a: f32, x: [f32][n], y: [f32][n]):
    for i in seq(0, n):
        y[i] += a * x[i]


@proc
def zero2(m: size, k: size, t: [f32][m, k]):
    for i in seq(0, m):
        for j in seq(0, k):
            t[i, j] = 0.0


@proc
def cond_set(n: size, b: bool, x: [f32][n]):
    for i in seq(0, n):
        if b:
            x[i] = 1.0


@proc
def one_stmt(x: [f32][1], y: [f32][1]):
    x[0] = y[0] * 2.0


# ------------------------------------------------------------------ kernels
@proc
def k_add(n: size, p: f32[n], q: f32[n], r: f32[n]):
    for i in seq(0, n):
        r[i] = p[i] + q[i]
    for i in seq(0, n):
        p[i] = r[i] + r[i]


@proc
def k_add_fixed(p: f32[8], q: f32[8], r: f32[8]):
    for io in seq(0, 2):
        for ii in seq(0, 4):
            r[4 * io + ii] = p[4 * io + ii] + q[4 * io + ii]
    for i in seq(0, 4):
        q[i + 2] = p[i]


@proc
def k_rows(n: size, m: size, A: f32[n, m], B: f32[n, m], C: f32[n, m]):
    for i in seq(0, n):
        for j in seq(0, m):
            C[i, j] = A[i, j] + B[i, j]


@proc
def k_cols(n: size, m: size, A: f32[n, m], B: f32[m, n], C: f32[n, m]):
    for j in seq(0, m):
        for i in seq(0, n):
            C[i, j] = A[i, j] + B[j, i]


@proc
def k_strided(n: size, x: f32[2 * n], y: f32[2 * n], z: f32[n]):
    for i in seq(0, n):
        z[i] = x[2 * i] + y[2 * i + 1]


@proc
def k_overlap(n: size, x: f32[n + 1]):
    for i in seq(0, n):
        x[i] = x[i + 1] + x[i]


@proc
def k_scale(n: size, s: f32, x: f32[n]):
    for i in seq(0, n):
        x[i] = x[i] * s


@proc
def k_scale_big(n: size, s: f32, x: f32[n + 2]):
    for i in seq(0, n + 2):
        x[i] = x[i] * s


@proc
def k_set(n: size, x: f32[n + 1]):
    for i in seq(0, n):
        x[i] = 0.0
    x[0] = 1.0
    for i in seq(0, n + 1):
        x[i] = 0.0
    x[n] = 1.0


@proc
def k_axpy(n: size, a: f32, x: f32[n], y: f32[n], z: f32[n]):
    for i in seq(0, n):
        y[i] += a * x[i]
    for i in seq(0, n):
        z[i] += x[i] * a
    y[0] = 0.0


@proc
def k_zero(n: size, T: f32[n, 4], U: f32[4, n]):
    for i in seq(0, n):
        for j in seq(0, 4):
            T[i, j] = 0.0
    for i in seq(0, n):
        for j in seq(0, 4):
            U[j, i] = 0.0


@proc
def k_cond(n: size, t: index, x: f32[n]):
    for i in seq(0, n):
        if t > 0:
            x[i] = 1.0


@proc
def k_one(x: f32[4], y: f32[4]):
    x[1] = y[2] * 2.0
    x[2] = y[2] * 2.0
    x[3] = x[3] * 2.0


@proc
def k_long_block(n: size, p: f32[n], q: f32[n], r: f32[n]):
    for i in seq(0, n):
        r[i] = p[i] + q[i]
    p[0] = 5.0
    q[0] = 6.0


PROCS = [k_add, k_add_fixed, k_rows, k_cols, k_strided, k_overlap, k_scale, k_scale_big, k_set, k_axpy,
         k_zero, k_cond, k_one, k_long_block]
CONFIGS = []
SUBPROCS = {"vadd": vadd, "vadd4": vadd4, "vcopy4": vcopy4, "vscale": vscale, "vset": vset, "axpy_c": axpy_c,
            "zero2": zero2, "cond_set": cond_set, "one_stmt": one_stmt}
