"""Corpus E: allocation lifetimes - windows of allocations, allocations under loops and branches,
several buffers with interleaved last uses, buffers passed to callees."""
from __future__ import annotations

from exo import proc, config
from exo.libs.memories import DRAM_STACK, DRAM_STATIC


@config
class MemCfg:
    scale: f32
    acc: f32


@proc
def consume(n: size, src: [f32][n], dst: [f32][n]):
    for i in seq(0, n):
        dst[i] = src[i] + 1.0


@proc
def win_of_alloc(y: f32[4]):
    x: f32[8]
    for i in seq(0, 8):
        x[i] = 1.0
    w = x[2:6]
    for i in seq(0, 4):
        y[i] = w[i]


@proc
def win_of_win(y: f32[4]):
    x: f32[8]
    for i in seq(0, 8):
        x[i] = 2.0
    w = x[2:8]
    v = w[1:5]
    y[0] = 0.0
    for i in seq(0, 4):
        y[i] = v[i]
    y[3] = 2.0


@proc
def win_in_loop(n: size, y: f32[n, 4]):
    x: f32[n, 4]
    for i in seq(0, n):
        for j in seq(0, 4):
            x[i, j] = 3.0
    for i in seq(0, n):
        r = x[i, 0:4]
        consume(4, r, y[i, 0:4])


@proc
def alloc_in_branch(n: size, t: index, y: f32[n]):
    if t > 0:
        a: f32[n]
        for i in seq(0, n):
            a[i] = 1.0
        for i in seq(0, n):
            y[i] = a[i]
    else:
        b: f32[n]
        w = b[0:n]
        for i in seq(0, n):
            w[i] = 2.0
        consume(n, w, y[0:n])


@proc
def interleaved(n: size, y: f32[n]):
    a: f32[n]
    b: f32[n]
    for i in seq(0, n):
        a[i] = 1.0
    for i in seq(0, n):
        b[i] = a[i] + 1.0
    c: f32[n]
    for i in seq(0, n):
        c[i] = b[i]
    for i in seq(0, n):
        y[i] = c[i] + b[i]


@proc
def alloc_in_loop(n: size, x: f32[n], y: f32[n]):
    for i in seq(0, n):
        t: f32[2]
        t[0] = x[i]
        t[1] = t[0] * 2.0
        if i > 0:
            u: f32
            u = t[1]
            y[i] = u
        else:
            y[i] = t[0]


@proc
def unused_alloc(n: size, y: f32[n]):
    a: f32[n]
    for i in seq(0, n):
        y[i] = 0.0


@proc
def scalar_alloc_call(n: size, x: f32[n], y: f32[n]):
    s: f32[1]
    s[0] = 0.0
    w = s[0:1]
    for i in seq(0, n):
        consume(1, x[i:i + 1], w)
        y[i] = w[0]


@proc
def stack_mem(n: size, y: f32[n]):
    a: f32[4] @ DRAM_STACK
    for i in seq(0, 4):
        a[i] = 1.0
    w = a[1:3]
    for i in seq(0, n):
        y[i] = w[i % 2]


# ---- last use of a buffer in every statement kind that can read one (assignment, reduction, configuration write,
#      call argument, window statement, condition-free branches, loop bodies)
@proc
def last_use_cfg(y: f32[4]):
    t: f32[4]
    t[0] = y[0] + 1.0
    t[1] = y[1] + 1.0
    y[0] = t[0]
    MemCfg.scale = t[1]


@proc
def last_use_cfg_branch(k: index, y: f32[4]):
    t: f32[4]
    t[2] = y[2] * 2.0
    t[3] = y[3] * 2.0
    if k > 0:
        MemCfg.scale = t[2]
    else:
        MemCfg.acc = t[3]
    y[0] = MemCfg.scale


@proc
def last_use_cfg_loop(n: size, y: f32[4]):
    t: f32[4]
    t[2] = y[2] + 3.0
    for j in seq(0, n):
        if n > 2:
            MemCfg.acc = t[2]
    y[1] = 0.0


@proc
def last_use_reduce(y: f32[4], o: f32[1]):
    t: f32[4]
    u: f32[4]
    for i in seq(0, 4):
        t[i] = y[i]
        u[i] = y[i] * 2.0
    y[0] = u[0]
    o[0] += t[3]


@proc
def last_use_window_arg(y: f32[4], o: f32[4]):
    t: f32[8]
    for i in seq(0, 8):
        t[i] = 1.0
    y[0] = t[0]
    consume(4, t[4:8], o[0:4])


# ---- two variants of one procedure that share their parameter symbols (partial_eval / simplify keep them) but differ
#      in which window parameters they write: each call site must use the struct its own callee declares
@proc
def cvar(clear: bool, n: size, a: [f32][n], b: [f32][n]):
    if clear:
        for j in seq(0, n):
            a[j] = 0.0
    for j in seq(0, n):
        b[j] += a[j]


def _cvar0():
    from exo.stdlib.scheduling import simplify, rename, eliminate_dead_code
    q = cvar.partial_eval(clear=False)
    try:
        q = eliminate_dead_code(q, q.find("if _: _"))
    except Exception:
        q = simplify(q)
    return rename(q, "cvar0")


cvar0 = _cvar0()


@proc
def cvar_caller(n: size, x: f32[n], y: f32[n]):
    cvar(True, n, x[0:n], y[0:n])
    cvar0(n, x[0:n], y[0:n])


@proc
def cvar_caller2(n: size, x: f32[n], y: f32[n]):
    cvar0(n, x[0:n], y[0:n])
    cvar(True, n, x[0:n], y[0:n])


PROCS = [cvar_caller, cvar_caller2, last_use_cfg, last_use_cfg_branch, last_use_cfg_loop, last_use_reduce, last_use_window_arg, win_of_alloc, win_of_win, win_in_loop, alloc_in_branch, interleaved, alloc_in_loop, unused_alloc,
         scalar_alloc_call, stack_mem]
CONFIGS = [MemCfg]
