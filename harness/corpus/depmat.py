"""Corpus M: the dependence matrix.  Two statements in one loop access the same buffer x, the first
with kind k1 at x[i+1], the second with kind k2 at x[i+1+off] (k in read / write / reduce, off in
0, +1, -1): every cell of the side-condition matrix of reorder_stmts, fission, fuse, reorder_loops,
parallelize_loop, ... where the condition holds or fails for exactly one pair of access kinds."""
from __future__ import annotations

from .genmod import load_generated

KINDS = {"R": ("{o}[i] = x[{ix}]", "reads"), "W": ("x[{ix}] = {o}[i]", "writes"), "D": ("x[{ix}] += {o}[i]", "reduces")}


def _src():
    L = ["from __future__ import annotations", "from exo import proc", ""]
    names = []
    for k1 in "RWD":
        for k2 in "RWD":
            for off, tag in ((0, "same"), (1, "next"), (-1, "prev")):
                nm = f"dm_{k1}{k2}_{tag}"
                names.append(nm)
                ix1 = "i + 1"
                ix2 = "i + 1" if off == 0 else ("i + 2" if off == 1 else "i")
                L += ["@proc", f"def {nm}(n: size, x: f32[n + 2], y: f32[n], z: f32[n]):",
                      "    for i in seq(0, n):",
                      "        " + KINDS[k1][0].format(o="y", ix=ix1),
                      "        " + KINDS[k2][0].format(o="z", ix=ix2), ""]
    # two-loop forms (fuse / loop interchange): the same matrix across two loops and across two nested loops
    for k1 in "RWD":
        for k2 in "RWD":
            nm = f"dm2_{k1}{k2}"
            names.append(nm)
            L += ["@proc", f"def {nm}(n: size, x: f32[n + 2], y: f32[n], z: f32[n]):",
                  "    for i in seq(0, n):",
                  "        " + KINDS[k1][0].format(o="y", ix="i + 1"),
                  "    for i in seq(0, n):",
                  "        " + KINDS[k2][0].format(o="z", ix="i"), ""]
    return "\n".join(L), names


_s, _names = _src()
_mod = load_generated("exoverif_depmat", _s)
PROCS = [getattr(_mod, n) for n in _names]
CONFIGS = []
