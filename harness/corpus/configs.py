"""Corpus C: configuration state read/written directly and through callees (C10)."""
from __future__ import annotations

from exo import proc, config
from exo.stdlib.scheduling import divide_loop, simplify, write_config, bind_config, rename, reorder_stmts


@config
class Cfg:
    scale: f32
    bias: f32
    k: index
    on: bool


@config
class Other:
    v: f32


@proc
def set_scale(v: f32):
    Cfg.scale = v


@proc
def set_k(j: index):
    assert j >= 0
    Cfg.k = j


@proc
def apply_scale(n: size, x: f32[n]):
    for i in seq(0, n):
        x[i] = x[i] * Cfg.scale


@proc
def apply_both(n: size, x: f32[n]):
    for i in seq(0, n):
        if Cfg.on:
            x[i] = x[i] * Cfg.scale + Cfg.bias


@proc
def kern(n: size, x: f32[n], s: f32):
    for i in seq(0, n):
        x[i] = x[i] * s


@proc
def direct_rw(n: size, x: f32[n], v: f32):
    Cfg.scale = v
    for i in seq(0, n):
        x[i] = x[i] * Cfg.scale
    Cfg.scale = 2.0
    Cfg.bias = v


@proc
def read_after_write(n: size, x: f32[n], v: f32):
    Cfg.scale = 3.0
    apply_scale(n, x)
    Cfg.scale = v
    apply_scale(n, x)


@proc
def dead_write(n: size, x: f32[n], v: f32):
    Cfg.scale = v
    Cfg.scale = 2.0
    apply_scale(n, x)
    Cfg.bias = 1.0


@proc
def via_callees(n: size, x: f32[n], v: f32):
    set_scale(v)
    apply_scale(n, x)
    set_k(2)
    set_scale(v)
    Cfg.bias = v
    apply_both(n, x)


@proc
def cfg_in_loop(n: size, m: size, x: f32[n], v: f32):
    for j in seq(0, m):
        Cfg.scale = v
        apply_scale(n, x)


@proc
def cfg_guarded(n: size, x: f32[n], v: f32, t: index):
    if t > 0:
        Cfg.scale = v
    else:
        Cfg.scale = 1.0
    apply_scale(n, x)
    if Cfg.on:
        Cfg.bias = v


@proc
def bind_me(n: size, x: f32[n], s: f32, b: bool):
    for i in seq(0, n):
        x[i] = x[i] * s
    if b:
        x[0] = s
    kern(n, x, s)


@proc
def two_configs(n: size, x: f32[n], v: f32):
    Other.v = v
    Cfg.scale = v
    for i in seq(0, n):
        x[i] = x[i] * Cfg.scale + Other.v
    Other.v = 0.0


@proc
def index_cfg(n: size, x: f32[n + 4]):
    Cfg.k = 2
    for i in seq(0, n):
        x[i] = x[i + 2] * 2.0
    Cfg.k = 3


# ---- equivalent variants of a callee, for call_eqv -------------------------
@proc
def user_of_kern(n: size, x: f32[n], s: f32):
    Cfg.bias = s
    kern(n, x, s)
    kern(n, x, s)


kern_div = rename(simplify(divide_loop(kern, "i", 2, ["io", "ii"], tail="cut")), "kern_div")
# derived with a configuration side effect: equivalent only modulo {Cfg.scale}
kern_cfg = rename(bind_config(kern, kern.find("s"), Cfg, "scale"), "kern_cfg")
kern_wcfg = rename(write_config(kern, kern.body()[0].before(), Cfg, "bias", "s"), "kern_wcfg")


# a caller of the configuration-writing variant: swapping *back* to the original (which no longer writes the field)
# changes the final value of Cfg.scale, so the swap must report that field (or be refused)
@proc
def user_of_kern_cfg(n: size, x: f32[n], s: f32):
    Cfg.scale = 3.0
    kern_cfg(n, x, s)
    Cfg.bias = s


# narrowed by an assertion: not an equivalence-preserving step, must never be accepted by call_eqv
kern_asserted = rename(kern.add_assertion("n >= 2"), "kern_asserted")


# same signature and text as kern, but of *different origin* (must never be accepted by call_eqv)
@proc
def kern_foreign(n: size, x: f32[n], s: f32):
    for i in seq(0, n):
        x[i] = x[i] * s


@proc
def kern_wrong(n: size, x: f32[n], s: f32):
    for i in seq(0, n):
        x[i] = x[i] + s


# ---- dataflow matrix: a field written early and read later under a guard whose truth the analysis may or may
#      may not know (size / argument / incoming config / config written in a loop, under an if, by a callee)
@config
class Flow:
    mode: index
    lim: index


@proc
def set_mode(j: index):
    Flow.mode = j


@proc
def use_lim(x: f32[6]):
    for j in seq(0, 6):
        if j < Flow.lim:
            x[j] = 1.0


def _flow_src():
    setups = {
        "loopw": (["Flow.mode = 0", "for i in seq(0, n):", "    Flow.mode = 1"], "Flow.mode > 0"),
        "ifw": (["Flow.mode = 0", "if t > 0:", "    Flow.mode = 1"], "Flow.mode > 0"),
        "calleeloop": (["Flow.mode = 0", "for i in seq(0, n):", "    set_mode(1)"], "Flow.mode > 0"),
        "defw": (["Flow.mode = 1"], "Flow.mode > 0"),
        "size": ([], "n > 3"),
        "arg": ([], "t > 0"),
        "incoming": ([], "Flow.mode > 0"),
        "boolcfg": ([], "Cfg.on"),
    }
    L = ["from __future__ import annotations", "from exo import proc",
         "from harness.corpus.configs import Flow, Cfg, set_mode, use_lim", ""]
    names = []
    for nm, (setup, guard) in setups.items():
        for rd in ("direct", "callee"):
            fn = f"cg_{nm}_{rd}"
            names.append(fn)
            L += ["@proc", f"def {fn}(n: size, t: index, x: f32[6]):", "    Flow.lim = 2"]
            L += ["    " + l for l in setup]
            L += [f"    if {guard}:"]
            if rd == "direct":
                L += ["        for j in seq(0, 6):", "            if j < Flow.lim:", "                x[j] = 1.0"]
            else:
                L += ["        use_lim(x)"]
            L += [""]
    # adjacent ifs on the same configuration-dependent condition, the first of which changes the condition (fuse)
    for nm, body in {
        "then": ["Flow.mode = 1", "if Flow.mode > 0:", "    Flow.mode = 0", "    x[0] = 1.0", "if Flow.mode > 0:", "    x[1] = 2.0"],
        "else": ["if Flow.mode > 0:", "    x[0] = 1.0", "else:", "    Flow.mode = 1", "if Flow.mode > 0:", "    x[1] = 2.0"],
        "ctrl": ["if Flow.mode > 0:", "    x[0] = 1.0", "if Flow.mode > 0:", "    x[1] = 2.0"],
        "lim": ["if Flow.lim > 1:", "    Flow.mode = 0", "    x[0] = 1.0", "if Flow.lim > 1:", "    x[1] = 2.0"],
    }.items():
        fn = f"cg_twoifs_{nm}"
        names.append(fn)
        L += ["@proc", f"def {fn}(n: size, t: index, x: f32[6]):"] + ["    " + b for b in body] + [""]
    # control-typed configuration fields handed bare to a callee (the call is the later read)
    L += ["@proc", "def cg_take(x: f32[6], k: index, b: bool):", "    for j in seq(0, 6):", "        if j < k:",
          "            x[j] = 1.0", "    if b:", "        x[5] = 2.0", ""]
    for nm, body in {
        "index": ["Flow.lim = 2", "Cfg.on = True", "cg_take(x, Flow.lim, Cfg.on)"],
        "guarded": ["Flow.lim = 2", "Cfg.on = True", "if t > 0:", "    cg_take(x, Flow.lim, Cfg.on)"],
        "loop": ["Flow.lim = 2", "Cfg.on = False", "for i in seq(0, n):", "    cg_take(x, Flow.lim, Cfg.on)"],
    }.items():
        fn = f"cg_barearg_{nm}"
        names.append(fn)
        L += ["@proc", f"def {fn}(n: size, t: index, x: f32[6]):"] + ["    " + b for b in body] + [""]
    # a callee whose configuration summary ends in two adjacent writes, a caller that writes one of the fields right after
    # the call, and a caller whose branch is decided by the callee's value (analysis caches keyed by callee)
    L += ["@proc", "def cg_set2(x: f32[6]):", "    Flow.mode = 0", "    Flow.lim = 1", ""]
    for nm, body in {
        "set2_then_write": ["cg_set2(x)", "Flow.lim = 3", "x[0] = 1.0"],
        "set2_branch": ["cg_set2(x)", "if Flow.lim == 1:", "    x[1] = 1.0", "else:", "    x[1] = 2.0"],
        "set2_guard": ["cg_set2(x)", "for j in seq(0, 6):", "    if j < Flow.lim:", "        x[j] = 4.0"],
    }.items():
        fn = f"cg_{nm}"
        names.append(fn)
        L += ["@proc", f"def {fn}(n: size, t: index, x: f32[6]):"] + ["    " + b for b in body] + [""]
    return "\n".join(L), names


PROCS = [direct_rw, read_after_write, dead_write, via_callees, cfg_in_loop, cfg_guarded, bind_me,
         two_configs, index_cfg, user_of_kern, user_of_kern_cfg, apply_both]
CONFIGS = [Cfg, Other, Flow]


def _load_flow():
    import sys
    from .genmod import load_generated
    if "harness.corpus.configs" not in sys.modules:  # the generated module imports this one by name
        return []
    src, names = _flow_src()
    mod = load_generated("exoverif_cfgflow", src)
    return [getattr(mod, n) for n in names]


PROCS += _load_flow()
EQV_PROCS = {"kern_div": kern_div, "kern_cfg": kern_cfg, "kern_wcfg": kern_wcfg, "kern": kern,
             "kern_foreign!": kern_foreign, "kern_wrong!": kern_wrong, "kern_asserted!": kern_asserted}
