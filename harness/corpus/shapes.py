"""Corpus S: shape programs for cursor forwarding (C06/C07/C16).  Every leaf statement writes a
unique literal into its own buffer, so (a) statements are identifiable after any rewrite and
(b) all statements are independent, so most side conditions of primitives hold."""
from __future__ import annotations

from exo import proc


@proc
def sh_flat(n: size, a: f32[n], b: f32[n], c: f32[n], d: f32[n]):
    for i in seq(0, n):
        a[i] = 1.0
        b[i] = 2.0
        c[i] = 3.0
        d[i] = 4.0


@proc
def sh_nest(n: size, m: size, a: f32[n, m], b: f32[n, m], c: f32[n], d: f32[n]):
    for i in seq(0, n):
        c[i] = 11.0
        for j in seq(0, m):
            a[i, j] = 12.0
            b[i, j] = 13.0
        d[i] = 14.0


@proc
def sh_if(n: size, t: index, a: f32[n], b: f32[n], c: f32[n], d: f32[n], e: f32[n]):
    for i in seq(0, n):
        if t > 0:
            a[i] = 21.0
            b[i] = 22.0
        else:
            c[i] = 23.0
            d[i] = 24.0
            e[i] = 25.0


@proc
def sh_seq(n: size, a: f32[n], b: f32[n], c: f32[n], d: f32[n]):
    for i in seq(0, n):
        a[i] = 31.0
    for j in seq(0, n):
        b[j] = 32.0
    c[0] = 33.0
    d[0] = 34.0
    for k in seq(0, n):
        c[k] = 35.0
        d[k] = 36.0


@proc
def sh_deep(n: size, t: index, a: f32[n, 4], b: f32[n, 4], c: f32[n], d: f32[n]):
    for i in seq(0, n):
        if t > 1:
            for j in seq(0, 4):
                a[i, j] = 41.0
                if t > 2:
                    b[i, j] = 42.0
            c[i] = 43.0
        d[i] = 44.0


@proc
def sh_alloc(n: size, a: f32[n], b: f32[n]):
    for i in seq(0, n):
        t: f32[4]
        u: f32
        for j in seq(0, 4):
            t[j] = 51.0
        u = 52.0
        a[i] = 53.0
        b[i] = 54.0


@proc
def sh_const(a: f32[8], b: f32[8], c: f32[8]):
    for i in seq(0, 8):
        a[i] = 61.0
        b[i] = 62.0
    for j in seq(0, 4):
        c[j] = 63.0
        c[j + 4] = 64.0


# ---- calls among labelled siblings (call_eqv, inline, extract_subproc, replace act on a statement in the middle)
@proc
def sh_callee(n: size, x: [f32][n]):
    for q in seq(0, n):
        x[q] = 70.0


@proc
def sh_calls(n: size, a: f32[n], b: f32[n], c: f32[n], d: f32[n], e: f32[n]):
    a[0] = 71.0
    sh_callee(n, b[0:n])
    c[0] = 72.0
    for i in seq(0, n):
        d[i] = 73.0
        sh_callee(n, e[0:n])
        if i > 0:
            d[i] = 74.0
            a[i] = 75.0
    b[0] = 76.0


# ---- a reduction scaled by a constant, with labelled statements before and after it (lift_reduce_constant,
#      fold_into_reduce, merge_writes act in the middle of the block)
@proc
def sh_reduce(n: size, x: f32[n], a: f32[1], b: f32[1], c: f32[1], d: f32[n]):
    a[0] = 81.0
    acc: f32
    acc = 0.0
    for i in seq(0, n):
        acc += 7.0 * x[i]
    b[0] = 82.0
    for j in seq(0, n):
        d[j] = 83.0
    c[0] = acc + 84.0


def _eqv():
    from exo.stdlib.scheduling import divide_loop, rename, simplify
    return {"sh_callee_div": rename(simplify(divide_loop(sh_callee, "q", 2, ["qo", "qi"], tail="cut")), "sh_callee_div")}


PROCS = [sh_flat, sh_nest, sh_if, sh_seq, sh_deep, sh_alloc, sh_const, sh_calls, sh_reduce]
CONFIGS = []
EQV_PROCS = _eqv()
SUBPROCS = {"sh_callee": sh_callee}
