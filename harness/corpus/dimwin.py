"""Corpus D: dimension operations versus windows.  A local buffer of rank 2 or 3 is filled, viewed through a
window statement with every mix of point and interval coordinates (and through a call that takes such a window),
and read back.  rearrange_dim (all permutations), expand_dim, divide_dim, mult_dim, resize_dim, unroll_buffer,
lift/sink_alloc, stage_mem, ... applied to the buffer must keep every window denoting the same cells."""
from __future__ import annotations

import itertools

from .genmod import load_generated

DIMS = {2: (4, 3), 3: (4, 2, 3)}
ITS = "abc"


def _src():
    L = ["from __future__ import annotations", "from exo import proc", ""]
    L += ["@proc", "def dw_sum(n: size, v: [f32][n], o: [f32][1]):", "    for q in seq(0, n):", "        o[0] += v[q]", ""]
    names = []
    for r, shp in DIMS.items():
        full = ", ".join(str(s) for s in shp)
        for pat in itertools.product("ip", repeat=r):
            if "i" not in pat:
                continue
            nm = f"dw{r}_" + "".join(pat)
            names.append(nm)
            coords = ", ".join(f"0:{shp[d]}" if pat[d] == "i" else "1" for d in range(r))
            ivs = [d for d in range(r) if pat[d] == "i"]
            L += ["@proc", f"def {nm}(src: f32[{full}], out: f32[{full}]):", f"    x: f32[{full}]"]
            ind = "    "
            for d in range(r):
                L.append(f"{ind}for {ITS[d]} in seq(0, {shp[d]}):")
                ind += "    "
            idx = ", ".join(ITS[d] for d in range(r))
            L.append(f"{ind}x[{idx}] = src[{idx}] * 2.0")
            L.append(f"    y = x[{coords}]")
            ind = "    "
            for d in ivs:
                L.append(f"{ind}for {ITS[d]} in seq(0, {shp[d]}):")
                ind += "    "
            yidx = ", ".join(ITS[d] for d in ivs)
            oidx = ", ".join(ITS[d] if pat[d] == "i" else "1" for d in range(r))
            L.append(f"{ind}out[{oidx}] = y[{yidx}] + 1.0")
            L.append("")
        # a window passed to a call (1-D slice along each dimension)
        for d in range(r):
            nm = f"dw{r}_call{d}"
            names.append(nm)
            coords = ", ".join(f"0:{shp[k]}" if k == d else "1" for k in range(r))
            L += ["@proc", f"def {nm}(src: f32[{full}], out: f32[1]):", f"    x: f32[{full}]"]
            ind = "    "
            for k in range(r):
                L.append(f"{ind}for {ITS[k]} in seq(0, {shp[k]}):")
                ind += "    "
            idx = ", ".join(ITS[k] for k in range(r))
            L.append(f"{ind}x[{idx}] = src[{idx}] + 1.0")
            L.append(f"    dw_sum({shp[d]}, x[{coords}], out[0:1])")
            L.append("")
    # 2-D *arguments* handed row- or column-wise to a callee that assumes unit stride (transpose / rearrange_dim /
    # set_window of the argument must keep every call inside the callee's specification)
    L += ["@proc", "def dwa_copy1(m: size, d: [f32][m], s: [f32][m]):", "    assert stride(d, 0) == 1",
          "    assert stride(s, 0) == 1", "    for j in seq(0, m):", "        d[j] = s[j] + 1.0", ""]
    L += ["@proc", "def dwa_copy(m: size, d: [f32][m], s: [f32][m]):", "    for j in seq(0, m):",
          "        d[j] = s[j] + 1.0", ""]
    for nm, callee, da, sa in (("dwa_rows1", "dwa_copy1", "out[i, 0:m]", "A[i, 0:m]"),
                               ("dwa_rows", "dwa_copy", "out[i, 0:m]", "A[i, 0:m]"),
                               ("dwa_mixed", "dwa_copy", "out[i, 0:m]", "B[0:m, i]")):
        names.append(nm)
        L += ["@proc", f"def {nm}(n: size, m: size, A: f32[n, m], B: f32[m, n], out: f32[n, m]):",
              "    for i in seq(0, n):", f"        {callee}(m, {da}, {sa})", ""]
    return "\n".join(L), names


_s, _names = _src()
_mod = load_generated("exoverif_dimwin", _s)
PROCS = [getattr(_mod, n) for n in _names]
CONFIGS = []
SUBPROCS = {}
