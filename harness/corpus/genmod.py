"""Load generated Exo source text as a module (the @proc decorator needs a real file)."""
import atexit, importlib.util, os, shutil, sys, tempfile

_dirs = {}


def load_generated(modname, src):
    pid = os.getpid()
    if pid not in _dirs:
        d = tempfile.mkdtemp(prefix="exoverif_gen_", dir=os.environ.get("VERIF_SCRATCH", "/var/tmp"))
        _dirs[pid] = d

        def _rm(d=d, pid=pid):
            if os.getpid() == pid:
                shutil.rmtree(d, ignore_errors=True)
        atexit.register(_rm)
    path = os.path.join(_dirs[pid], modname + ".py")
    with open(path, "w") as f:
        f.write(src)
    spec = importlib.util.spec_from_file_location(modname, path)
    mod = importlib.util.module_from_spec(spec)
    sys.modules[modname] = mod
    spec.loader.exec_module(mod)
    return mod
