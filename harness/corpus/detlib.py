"""Corpus L: one library that puts several members into every collection the backend sorts before emitting
(externs - the same extern at several precisions -, memories, configs, window structs of several precisions /
ranks / constness, static helpers, callees), so that any emission order that depends on set iteration shows up
as differing text between interpreters (C18), and so that every such artefact is also compiled and run (C02)."""
from __future__ import annotations

from exo import proc, instr, config, DRAM
from exo.libs.externs import relu, select, fmaxf, sin, sqrt
from exo.libs.memories import DRAM_STACK, DRAM_STATIC


@config
class LibCfgA:
    k: index
    s: f32


@config
class LibCfgB:
    flag: bool
    t: f64


@config
class LibCfgC:
    z: index


@proc
def dl_relu32(n: size, x: f32[n], y: f32[n]):
    for i in seq(0, n):
        y[i] = relu(x[i])


@proc
def dl_relu64(n: size, x: f64[n], y: f64[n]):
    for i in seq(0, n):
        y[i] = relu(x[i])


@proc
def dl_relu8(n: size, x: i8[n], y: i8[n]):
    for i in seq(0, n):
        y[i] = relu(x[i])


@proc
def dl_relu_i32(n: size, x: i32[n], y: i32[n]):
    for i in seq(0, n):
        y[i] = relu(x[i])


@proc
def dl_sel32(n: size, x: f32[n], y: f32[n]):
    for i in seq(0, n):
        y[i] = select(x[i], y[i], x[i], fmaxf(x[i], y[i]))


@proc
def dl_sel64(n: size, x: f64[n], y: f64[n]):
    for i in seq(0, n):
        y[i] = select(x[i], y[i], x[i], fmaxf(x[i], y[i]))


@proc
def dl_math(n: size, x: f32[n], y: f64[n]):
    for i in seq(0, n):
        x[i] = sin(x[i]) + sqrt(x[i])
        y[i] = sin(y[i]) + sqrt(y[i])


@proc
def dl_w1(n: size, a: [f32][n], b: [f64][n], c: [i8][n], d: [i32][n]):
    for i in seq(0, n):
        a[i] = 1.0
        b[i] = 2.0
        c[i] = 3.0
        d[i] = 4.0


@proc
def dl_w2(n: size, a: [f32][n, n], b: [f64][n, n], c: [i8][n, n], src: [f32][n, n]):
    for i in seq(0, n):
        for j in seq(0, n):
            a[i, j] = src[j, i]
            b[i, j] = 2.0
            c[i, j] = 3.0


@proc
def dl_w3(n: size, a: [f32][n, 2, n], src: [f64][2, n, n], dst: [f64][2, n, n]):
    for i in seq(0, n):
        for j in seq(0, n):
            a[i, 0, j] = 0.5
            dst[1, i, j] = src[0, j, i]


@proc
def dl_mems(n: size, x: f32[n], y: f32[n]):
    assert n <= 8
    t1: f32[8] @ DRAM_STACK
    t2: f32[8] @ DRAM_STATIC
    t3: f32[8] @ DRAM_STACK
    t4: f32[n] @ DRAM
    for i in seq(0, n):
        t1[i] = x[i]
        t2[i] = t1[i] * 2.0
        t3[i] = t2[i] + 1.0
        t4[i] = t3[i]
        y[i] = t4[i]


@proc
def dl_cfgs(n: size, x: f32[n]):
    LibCfgC.z = 3
    LibCfgA.k = LibCfgC.z
    LibCfgB.flag = True
    LibCfgA.s = x[0]
    if LibCfgB.flag:
        x[0] = LibCfgA.s * 2.0


@proc
def dl_helpers(n: size, k: index, x: f32[4 * n + 8], y: i8[n]):
    assert k >= -3
    assert k <= 3
    for i in seq(0, n):
        x[(i + k + 3) / 2 + (i + k + 3) % 4] = x[(4 * i + k + 3) / 3]
        y[i] = x[i]


# instructions with their own global C text (several distinct blocks in one library)
@instr("dl_add1(&{d_data}, &{s_data});", c_global="static void dl_add1(float *d, const float *s) { d[0] = s[0] + 1.0f; }")
def dl_i_add1(d: [f32][1], s: [f32][1]):
    d[0] = s[0] + 1.0


@instr("dl_mul2(&{d_data}, &{s_data});", c_global="static void dl_mul2(float *d, const float *s) { d[0] = s[0] * 2.0f; }")
def dl_i_mul2(d: [f32][1], s: [f32][1]):
    d[0] = s[0] * 2.0


@instr("dl_neg(&{d_data}, &{s_data});", c_global="static void dl_neg(float *d, const float *s) { d[0] = -s[0]; }")
def dl_i_neg(d: [f32][1], s: [f32][1]):
    d[0] = -s[0]


@proc
def dl_instrs(n: size, x: f32[n], y: f32[n]):
    for i in seq(0, n):
        dl_i_add1(y[i:i + 1], x[i:i + 1])
        dl_i_mul2(x[i:i + 1], y[i:i + 1])
        dl_i_neg(y[i:i + 1], x[i:i + 1])


PROCS = [dl_instrs, dl_relu32, dl_relu64, dl_relu8, dl_relu_i32, dl_sel32, dl_sel64, dl_math, dl_w1, dl_w2, dl_w3, dl_mems,
         dl_cfgs, dl_helpers]
CONFIGS = [LibCfgA, LibCfgB, LibCfgC]
