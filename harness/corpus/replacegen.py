"""Corpus G: generated matrix for replace (C05).  Callees and kernels that differ in exactly one feature the
unifier has to compare: the comparison operator of a guard (and which side the iterator is on), the arithmetic
operator and operand order of the right-hand side, assign versus reduce, which buffers coincide, loop bounds,
literal values, index offsets and strides.  Every (kernel block, callee) pair is attempted; only true instances
may be accepted."""
from __future__ import annotations

from .genmod import load_generated

CMPS = {"lt": "<", "le": "<=", "gt": ">", "ge": ">=", "eq": "=="}


def _src():
    L = ["from __future__ import annotations", "from exo import proc", ""]
    callees, kernels = [], []
    # ---- guards: callee 'if i OP k', kernels with every operator, both operand orders, and an offset
    for nm, op in CMPS.items():
        c = f"rg_c_{nm}"
        callees.append(c)
        L += ["@proc", f"def {c}(n: size, k: index, d: [f32][n], s: [f32][n]):",
              "    for i in seq(0, n):", f"        if i {op} k:", "            d[i] = s[i]", ""]
    for nm, op in CMPS.items():
        for form, cond in (("a", f"i {op} m"), ("b", f"m {op} i"), ("c", f"i + 1 {op} m")):
            kn = f"rg_k_{nm}_{form}"
            kernels.append(kn)
            L += ["@proc", f"def {kn}(n: size, m: index, y: f32[n], x: f32[n]):",
                  "    for i in seq(0, n):", f"        if {cond}:", "            y[i] = x[i]", ""]
    # ---- right-hand sides: operator, operand order, coinciding operands, literal, assign / reduce
    rhs_c = {"add": "a[i] + b[i]", "sub": "a[i] - b[i]", "mul": "a[i] * b[i]", "dbl": "a[i] + a[i]",
             "lit": "a[i] * 2.0", "neg": "-a[i]"}
    for nm, e in rhs_c.items():
        two = "b[i]" in e
        sig = "n: size, d: [f32][n], a: [f32][n]" + (", b: [f32][n]" if two else "")
        for kind, asg in (("as", "="), ("rd", "+=")):
            c = f"rr_c_{nm}_{kind}"
            callees.append(c)
            L += ["@proc", f"def {c}({sig}):", "    for i in seq(0, n):", f"        d[i] {asg} {e}", ""]
    rhs_k = {"add": "p[i] + q[i]", "addc": "q[i] + p[i]", "sub": "p[i] - q[i]", "subc": "q[i] - p[i]", "mul": "p[i] * q[i]",
             "dbl": "p[i] + p[i]", "lit2": "p[i] * 2.0", "lit3": "p[i] * 3.0", "neg": "-p[i]", "self": "r[i] + q[i]"}
    for nm, e in rhs_k.items():
        for kind, asg in (("as", "="), ("rd", "+=")):
            kn = f"rr_k_{nm}_{kind}"
            kernels.append(kn)
            L += ["@proc", f"def {kn}(n: size, p: f32[n], q: f32[n], r: f32[n]):",
                  "    for i in seq(0, n):", f"        r[i] {asg} {e}", ""]
    # ---- bounds, offsets and strides
    callees.append("rb_c")
    L += ["@proc", "def rb_c(n: size, d: [f32][n], s: [f32][n]):", "    for i in seq(0, n):", "        d[i] = s[i]", ""]
    for nm, (lo, hi, di, si, shp) in {"full": ("0", "n", "i", "i", "n"), "lo1": ("1", "n", "i", "i", "n"),
                                      "off": ("0", "n", "i", "i + 1", "n + 1"), "rev": ("0", "n", "i", "n - 1 - i", "n"),
                                      "str2": ("0", "n", "i", "2 * i", "2 * n"), "short": ("0", "n - 1", "i", "i", "n"),
                                      "dst1": ("0", "n", "i + 1", "i", "n + 1")}.items():
        kn = f"rb_k_{nm}"
        kernels.append(kn)
        L += ["@proc", f"def {kn}(n: size, y: f32[{shp}], x: f32[{shp}]):", "    assert n >= 2",
              f"    for i in seq({lo}, {hi}):", f"        y[{di}] = x[{si}]", ""]
    # ---- callee-local buffers: allocations inside the callee body must be matched by the block's own allocations
    callees += ["rt_c_tmp", "rt_c_two"]
    L += ["@proc", "def rt_c_tmp(n: size, d: [f32][n], s: [f32][n]):", "    for i in seq(0, n):", "        tmp: f32",
          "        tmp = s[i]", "        d[i] = tmp", ""]
    L += ["@proc", "def rt_c_two(n: size, d: [f32][n], a: [f32][n], b: [f32][n]):", "    for i in seq(0, n):",
          "        t1: f32", "        t2: f32", "        t1 = a[i]", "        t2 = b[i]", "        d[i] = t1 - t2", ""]
    for nm, body in {
        "inst": ["for i in seq(0, 8):", "    c: f32", "    c = x[i]", "    y[i] = c", "out[0] = y[0]"],
        "outer": ["last: f32", "last = 0.0", "for i in seq(0, 8):", "    c: f32", "    last = x[i]", "    y[i] = last",
                  "out[0] = last"],
        "two_inst": ["for i in seq(0, 8):", "    u: f32", "    v: f32", "    u = x[i]", "    v = z[i]", "    y[i] = u - v",
                     "out[0] = y[0]"],
        "two_reuse": ["for i in seq(0, 8):", "    u: f32", "    v: f32", "    u = x[i]", "    u = z[i]", "    y[i] = u - u",
                      "out[0] = y[0]"],
        "two_swap": ["for i in seq(0, 8):", "    u: f32", "    v: f32", "    v = x[i]", "    u = z[i]", "    y[i] = u - v",
                     "out[0] = y[0]"],
    }.items():
        kn = f"rt_k_{nm}"
        kernels.append(kn)
        L += ["@proc", f"def {kn}(x: f32[8], z: f32[8], y: f32[8], out: f32[1]):"] + ["    " + b for b in body] + [""]
    return "\n".join(L), callees, kernels


_s, _callees, _kernels = _src()
_mod = load_generated("exoverif_replacegen", _s)
PROCS = [getattr(_mod, n) for n in _kernels]


# ---- kernels with distinct index symbols that share a display name (an inlined callee loop `i` inside a caller
#      loop `i`): a unifier that identifies variables by name confuses x[i] with x[i']
def _clash_kernels():
    from exo.stdlib.scheduling import inline, inline_window, rename, simplify
    src = """from __future__ import annotations
from exo import proc

@proc
def rn_row(n: size, k: index, dst: [f32][n], src: [f32][n]):
    assert k >= 0
    assert k < n
    for i in seq(0, n):
        dst[i] = src[k] + src[i]

@proc
def rn_row2(n: size, k: index, dst: [f32][n], src: [f32][n]):
    assert k >= 0
    assert k < n
    for i in seq(0, n):
        dst[i] = src[i] + src[k]

@proc
def rn_pairs(x: f32[8], y: f32[8, 8]):
    for i in seq(0, 8):
        rn_row(8, i, y[i, 0:8], x[0:8])

@proc
def rn_pairs2(x: f32[8], y: f32[8, 8]):
    for i in seq(0, 8):
        rn_row2(8, i, y[i, 0:8], x[0:8])
"""
    m = load_generated("exoverif_replacegen_clash", src)
    out = []
    for nm, callee in (("rn_pairs", "rn_row(_)"), ("rn_pairs2", "rn_row2(_)")):
        p = inline(getattr(m, nm), callee)
        for w in ("dst = _", "src = _"):
            p = inline_window(p, w)
        out.append(rename(simplify(p), nm + "_inl"))
    return out


PROCS += _clash_kernels()
CONFIGS = []
SUBPROCS = {n: getattr(_mod, n) for n in _callees}
