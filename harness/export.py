"""Projection of real exo objects (LoopIR.proc trees) to the JSON units read by spec/ExoMachine.tla.

No semantics lives here: no evaluation, no simplification, no defaulting beyond what LoopIR
stores.  Symbols are exported by identity (repr(Sym) = name_id) so that scope errors of a
rewrite are visible to the machine.
"""
from __future__ import annotations

from fractions import Fraction

from exo.core.LoopIR import LoopIR, T

P = 32749
POISON = -1000003


class ExportError(Exception):
    pass


def enc_const(v, mode):
    if isinstance(v, bool):
        return v
    fr = Fraction(v).limit_denominator(4096)
    if mode == "F":
        if fr.denominator % P == 0:
            raise ExportError("literal denominator divisible by P")
        return (fr.numerator % P) * pow(fr.denominator, -1, P) % P
    if fr.denominator != 1:
        raise ExportError(f"non-integer literal {v!r} in Z mode")
    return int(fr.numerator)


def is_ctl_type(t):
    return t.is_indexable() or t == T.bool or t == T.stride


def ext_id(name: str) -> int:
    return sum((i + 1) * ord(c) for i, c in enumerate(name)) % 251 + 1


class UnitExporter:
    def __init__(self, mode="F"):
        self.mode = mode
        self.procs = []
        self.proc_ids = {}
        self.cfgs = []  # "Config.field"
        self.cfgobjs = []  # (config, field)
        self.externs = set()
        self.features = set()
        self.symmap = {}

    def sym(self, s):
        """canonical, injective name of a Sym: base name + order of first occurrence"""
        k = repr(s)
        if k not in self.symmap:
            self.symmap[k] = f"{s.name()}#{len(self.symmap) + 1}" if callable(getattr(s, "name", None)) else f"{k}#{len(self.symmap) + 1}"
        return self.symmap[k]

    # -- config fields -------------------------------------------------------
    def cfgkey(self, config, field):
        k = f"{config.name()}.{field}"
        if k not in self.cfgs:
            self.cfgs.append(k)
            self.cfgobjs.append((config, field))
        return self.cfgs.index(k) + 1

    def cfgtypes(self):
        return [c.lookup_type(f) for (c, f) in self.cfgobjs]

    # -- expressions ---------------------------------------------------------
    def e(self, e):
        if isinstance(e, LoopIR.Read):
            if is_ctl_type(e.type) and not e.idx:
                return {"k": "v", "n": self.sym(e.name)}
            return {"k": "rd", "n": self.sym(e.name), "idx": [self.e(i) for i in e.idx]}
        if isinstance(e, LoopIR.Const):
            if (e.type == T.bool) != isinstance(e.val, bool):
                # a literal whose value contradicts its type (only a broken rewrite produces one): the machine
                # traps when it is evaluated
                self.features.add("illtyped-literal")
                return {"k": "illtyped", "v": str(e.val)}
            if is_ctl_type(e.type) or isinstance(e.val, bool):
                return {"k": "c", "v": e.val}
            return {"k": "c", "v": enc_const(e.val, self.mode)}
        if isinstance(e, LoopIR.USub):
            return {"k": "neg", "a": self.e(e.arg), "num": e.type.is_numeric()}
        if isinstance(e, LoopIR.BinOp):
            return {"k": "bin", "op": str(e.op), "l": self.e(e.lhs), "r": self.e(e.rhs),
                    "num": e.type.is_numeric()}
        if isinstance(e, LoopIR.Extern):
            self.externs.add(e.f.name())
            self.features.add("extern")
            return {"k": "ext", "f": e.f.name(), "fid": ext_id(e.f.name()),
                    "args": [self.e(a) for a in e.args]}
        if isinstance(e, LoopIR.WindowExpr):
            self.features.add("window")
            return {"k": "win", "n": self.sym(e.name), "acc": [self.w(w) for w in e.idx]}
        if isinstance(e, LoopIR.StrideExpr):
            self.features.add("stride")
            return {"k": "stride", "n": self.sym(e.name), "dim": e.dim}
        if isinstance(e, LoopIR.ReadConfig):
            self.features.add("config")
            return {"k": "rcfg", "c": self.cfgkey(e.config, e.field)}
        raise ExportError(f"unsupported expr {type(e)}")

    def w(self, w):
        if isinstance(w, LoopIR.Interval):
            return {"k": "iv", "lo": self.e(w.lo), "hi": self.e(w.hi)}
        return {"k": "pt", "pt": self.e(w.pt)}

    # -- statements ----------------------------------------------------------
    def block(self, blocks, stmts):
        bid = len(blocks)
        blocks.append(None)
        out = []
        for s in stmts:
            if isinstance(s, (LoopIR.Assign, LoopIR.Reduce)):
                out.append({"k": "assign" if isinstance(s, LoopIR.Assign) else "reduce",
                            "n": self.sym(s.name), "idx": [self.e(i) for i in s.idx],
                            "rhs": self.e(s.rhs)})
            elif isinstance(s, LoopIR.WriteConfig):
                self.features.add("config")
                out.append({"k": "wcfg", "c": self.cfgkey(s.config, s.field), "rhs": self.e(s.rhs)})
            elif isinstance(s, LoopIR.Pass):
                out.append({"k": "pass"})
            elif isinstance(s, LoopIR.If):
                b = self.block(blocks, s.body)
                o = self.block(blocks, s.orelse) if s.orelse else 0
                out.append({"k": "if", "cond": self.e(s.cond), "body": b, "orelse": o})
            elif isinstance(s, LoopIR.For):
                b = self.block(blocks, s.body)
                par = isinstance(s.loop_mode, LoopIR.Par)
                if par:
                    self.features.add("par")
                out.append({"k": "for", "it": self.sym(s.iter), "lo": self.e(s.lo),
                            "hi": self.e(s.hi), "body": b, "par": par})
            elif isinstance(s, LoopIR.Alloc):
                out.append({"k": "alloc", "n": self.sym(s.name),
                            "shape": [self.e(x) for x in s.type.shape()]})
            elif isinstance(s, LoopIR.Free):
                out.append({"k": "free", "n": self.sym(s.name)})
            elif isinstance(s, LoopIR.WindowStmt):
                self.features.add("window")
                out.append({"k": "winstmt", "n": self.sym(s.name), "rhs": self.e(s.rhs)})
            elif isinstance(s, LoopIR.Call):
                self.features.add("call")
                out.append({"k": "call", "f": self.proc(s.f), "args": [self.e(a) for a in s.args]})
            else:
                raise ExportError(f"unsupported stmt {type(s)}")
        blocks[bid] = out
        return bid + 1

    def proc(self, p):
        if id(p) in self.proc_ids:
            return self.proc_ids[id(p)]
        pid = len(self.procs)
        self.procs.append(None)
        self.proc_ids[id(p)] = pid + 1
        blocks = []
        entry = self.block(blocks, p.body)
        args = []
        for a in p.args:
            if a.type.is_numeric():
                args.append({"n": self.sym(a.name), "kind": "buf", "win": bool(a.type.is_win()),
                             "shape": [self.e(x) for x in a.type.shape()]})
            else:
                kind = ("size" if a.type == T.size else "bool" if a.type == T.bool
                        else "stride" if a.type == T.stride else "index")
                args.append({"n": self.sym(a.name), "kind": kind, "win": False, "shape": []})
        preds = [self.e(x) for x in p.preds]
        if '"illtyped"' in __import__("json").dumps(preds):
            # an assertion is evaluated before any statement (ValidInput / PredsOK): there is no place to trap
            raise ExportError("ill-typed literal inside an assertion")
        self.procs[pid] = {"name": str(p.name), "args": args,
                           "preds": preds,
                           "blocks": blocks, "entry": entry}
        return pid + 1


def make_unit(name, A, B=None, mode="F", modset=(), frees=False, race=False, trace=False,
              outmap=None, extra=None):
    """A, B: LoopIR.proc.  modset: iterable of (config, field).  Returns (unit dict, exporter).
    `inputs` is filled in by the caller (harness.inputs)."""
    ex = UnitExporter(mode)
    ida = ex.proc(A)
    n_a = len(ex.procs)
    idb = ex.proc(B) if B is not None else 0
    mods = [ex.cfgkey(c, f) for (c, f) in modset]
    if outmap is None:
        outmap = [{"a": j + 1, "b": j + 1, "perm": []}
                  for j, a in enumerate(A.args) if a.type.is_numeric()]
    unit = {"name": name, "mode": mode, "A": ida, "B": idb, "procs": ex.procs,
            "cfgs": list(ex.cfgs), "cfgbool": [t == T.bool for t in ex.cfgtypes()],
            "modset": mods, "frees": bool(frees), "race": bool(race), "trace": bool(trace),
            "outmap": outmap, "nA": n_a, "inputs": []}
    if extra:
        unit.update(extra)
    return unit, ex
