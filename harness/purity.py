"""C07: recorded scheduling sessions with deep fingerprints of every live Procedure and cursor
after every operation (successful or raising).  Validated by spec/SessionTrace.tla."""
from __future__ import annotations

import hashlib
import os
import importlib
import random
import signal

from .common import NCPU


class _Timeout(BaseException):  # must not be swallowed by "except Exception" in oracles
    pass


def _alarm(signum, frame):
    raise _Timeout()


def deep_fp(ir, seen=None):
    """structural fingerprint of a LoopIR tree: every field of every node, every list with its
    contents in order, symbols by identity (repr), callees recursively."""
    import attrs
    from exo.core.prelude import Sym, SrcInfo
    h = hashlib.sha1()
    stack = [ir]
    seen = set()
    while stack:
        n = stack.pop()
        if isinstance(n, list):
            h.update(b"[%d" % len(n))
            stack.extend(reversed(n))
        elif isinstance(n, tuple):
            h.update(b"(%d" % len(n))
            stack.extend(reversed(n))
        elif isinstance(n, Sym):
            h.update(repr(n).encode())
        elif isinstance(n, SrcInfo):
            pass
        elif isinstance(n, (str, int, float, bool)) or n is None:
            h.update(repr(n).encode())
        elif attrs.has(type(n)):
            h.update(type(n).__name__.encode())
            key = id(n)
            if type(n).__name__ == "proc":
                if key in seen:
                    continue
                seen.add(key)
            for a in attrs.fields(type(n)):
                stack.append(getattr(n, a.name))
        elif isinstance(n, type):
            h.update(n.__name__.encode())
        else:
            # Config / Extern / Memory objects: identity by name
            nm = getattr(n, "name", None)
            h.update((nm() if callable(nm) else str(type(n).__name__)).encode())
    return h.hexdigest()[:16]


def _safe_str(p):
    try:
        return str(p)
    except Exception as e:
        return f"<unprintable: {type(e).__name__}>"


def proc_fp(p, with_c=False):
    # (a procedure that can no longer be printed is an observation too, not a failure of the recorder)
    try:
        txt = hashlib.sha1(str(p).encode()).hexdigest()[:10]
    except Exception as e:
        txt = "E" + type(e).__name__
    fp = deep_fp(p.INTERNAL_proc()) + ":" + txt
    if with_c:
        try:
            fp += ":" + hashlib.sha1(p.c_code_str().encode()).hexdigest()[:10]
        except Exception as e:
            fp += ":E" + type(e).__name__
    return fp


def cursor_fp(c):
    try:
        impl = c._impl
        node = impl._node if hasattr(impl, "_node") else None
        if node is None and hasattr(impl, "_anchor"):
            node = impl._anchor._node
        return f"{type(c).__name__}:{getattr(impl, '_path', None) or getattr(impl._anchor, '_path', None)}:" \
               f"{deep_fp(node) if node is not None else ''}:{id(c.proc()) % 100000}"
    except Exception as e:
        return "E:" + type(e).__name__


def _job(job, emit):
    signal.signal(signal.SIGALRM, _alarm)
    from .gen_schedules import enumerate_candidates, walk_stmts
    from .edges import corpus_ctx
    import exo.stdlib.scheduling as S

    mod = importlib.import_module(job["module"])
    p0 = mod.PROCS[job["index"]]
    prog = f"{job['module'].split('.')[-1]}.{p0.name()}"
    ctx = corpus_ctx(mod)
    for sidx in range(job["sessions"]):
        emit("begin", sidx)
        rng = random.Random(f"purity/{job['seed']}/{prog}/{sidx}")
        procs = [p0]
        cursors = []
        with_c = (sidx % 3 == 0)

        def add_cursors(p):
            cs = [s for s, d, path in walk_stmts(p.body())]
            rng.shuffle(cs)
            for s in cs[:3]:
                cursors.append(s)
                if rng.random() < 0.5:
                    cursors.append(s.after())

        add_cursors(p0)

        def observe():
            return [proc_fp(p, with_c and k < 2) for k, p in enumerate(procs)], [cursor_fp(c) for c in cursors]

        fps, cfps = observe()
        trace = {"init": {"fps": fps, "cfps": cfps}, "events": []}
        meta = []
        steps = 0
        tries = 0
        while steps < job["length"] and tries < job["length"] * 3:
            tries += 1
            base = rng.choice(procs)
            try:
                cands = enumerate_candidates(base, ctx, rich=rng.random() < 0.6)
            except BaseException:
                continue
            if not cands:
                continue
            # prefer a mix of succeeding and failing operations: take candidates blindly
            c = rng.choice(cands)
            ok = False
            exc = ""
            signal.alarm(40)
            try:
                q = c.fn()
                signal.alarm(0)
                if q is not None:
                    ok = True
                    procs.append(q)
                    if len(cursors) < 40:
                        add_cursors(q)
                    # queries and compilation are operations too
                    if rng.random() < 0.3:
                        try:
                            str(q)
                            q.forward(cursors[0]) if cursors else None
                        except BaseException:
                            pass
            except _Timeout:
                exc = "Timeout"
            except BaseException as e:
                signal.alarm(0)
                exc = type(e).__name__
            fps, cfps = observe()
            trace["events"].append({"op": c.op, "ok": ok, "fps": fps, "cfps": cfps})
            meta.append({"op": c.op, "args": c.args, "ok": ok, "exc": exc, "on": procs.index(base) + 1})
            steps += 1
            if len(procs) > job["maxprocs"]:
                break
        emit("rec", {"prog": prog, "session": sidx, "trace": trace, "meta": meta,
                     "texts": [_safe_str(p) for p in procs[:1]]})
    # systematic sweep: every candidate of the grid applied once to the source procedure itself
    if job.get("sweep"):
        emit("begin", "sweep")
        rng = random.Random(f"purity-sweep/{job['seed']}/{prog}")
        cands = enumerate_candidates(p0, ctx, rich=True)
        if len(cands) > job["sweep"]:
            # keep every operation kind, sample within kinds
            by = {}
            for c in cands:
                by.setdefault(c.op, []).append(c)
            per = max(2, job["sweep"] // max(1, len(by)))
            cands = []
            for op, cs in sorted(by.items()):
                rng.shuffle(cs)
                cands += cs[:per]
        procs = [p0]
        cursors = [s for s, d, path in walk_stmts(p0.body())][:6]
        fp0 = [proc_fp(p0, True)]
        cf0 = [cursor_fp(c) for c in cursors]
        trace = {"init": {"fps": fp0, "cfps": cf0}, "events": []}
        meta = []
        for c in cands:
            ok, exc = False, ""
            signal.alarm(40)
            try:
                q = c.fn()
                signal.alarm(0)
                ok = q is not None
            except _Timeout:
                exc = "Timeout"
            except BaseException as e:
                signal.alarm(0)
                exc = type(e).__name__
            # only the source procedure is tracked here (handles of results are not kept alive)
            trace["events"].append({"op": c.op, "ok": False, "fps": [proc_fp(p0, True)],
                                    "cfps": [cursor_fp(x) for x in cursors]})
            meta.append({"op": c.op, "args": c.args, "ok": ok, "exc": exc, "on": 1})
        emit("rec", {"prog": prog, "session": "sweep", "trace": trace, "meta": meta, "texts": [_safe_str(p0)]})
    if job.get("stability"):
        emit("begin", "stability")
        _stability_session(job, emit, mod, p0, prog, ctx)


def _stability_session(job, emit, mod, p0, prog, ctx):
    """The same calls on the same existing procedure must give the same outcome (printed result or kind of error)
    whatever was analysed, scheduled or refused in between: outcomes are handles of a SessionTrace session, the
    unrelated operations in between are its (unobserved) steps, and the closing event re-observes every outcome."""
    import hashlib as _h
    from .gen_schedules import enumerate_candidates
    rng = random.Random(f"purity-stability/{job['seed']}/{prog}")
    cands = enumerate_candidates(p0, ctx, rich=True)
    by = {}
    for c in cands:
        if c.op == "extract_subproc":
            continue  # (the candidate grid numbers the extracted procedures: its thunk is not a function of its arguments)
        by.setdefault(c.op, []).append(c)
    pick = []
    for op, cs in sorted(by.items()):
        rng.shuffle(cs)
        pick += cs[:2]
    rng.shuffle(pick)
    pick = pick[: job["stability"]]

    def outcome(c):
        signal.alarm(40)
        try:
            q = c.fn()
            signal.alarm(0)
            return "none" if q is None else "ok:" + _h.sha1(_safe_str(q).encode()).hexdigest()[:12]
        except _Timeout:
            return "T"
        except BaseException as e:
            signal.alarm(0)
            return "E:" + type(e).__name__

    first = [outcome(c) for c in pick]
    # unrelated operations: blind candidates on the other procedures of the module (most of them are refused)
    others = [q for q in mod.PROCS if q is not p0]
    rng.shuffle(others)
    n_between = 0
    for q in others[:4]:
        try:
            c2s = enumerate_candidates(q, ctx, rich=True)
        except BaseException:
            continue
        rng.shuffle(c2s)
        for c2 in c2s[:10]:
            outcome(c2)
            n_between += 1
    second = [outcome(c) for c in pick]
    keep = [k for k in range(len(pick)) if first[k] != "T" and second[k] != "T"]
    if not keep:
        return
    trace = {"init": {"fps": [first[k] for k in keep], "cfps": []},
             "events": [{"op": "(the same calls again)", "ok": False, "fps": [second[k] for k in keep], "cfps": []}]}
    meta = [{"op": "(the same calls again)", "args": f"{len(keep)} calls, {n_between} unrelated operations in between",
             "ok": False, "exc": "", "on": 0, "calls": [f"{pick[k].op}({pick[k].args})" for k in keep]}]
    emit("rec", {"prog": prog, "session": "stability", "trace": trace, "meta": meta, "texts": [_safe_str(p0)]})


def _module_stability_job(job, emit):
    """One stability session per corpus module, observed by harness/stabrun.py in a fresh interpreter (the pool's workers
    have already analysed other procedures)."""
    import json as _json
    import subprocess
    import sys as _sys
    emit("begin", 0)
    env = dict(os.environ)
    p = subprocess.run([_sys.executable, "-m", "harness.stabrun", job["module"], str(job["seed"]), str(job["per_proc"])],
                       cwd=os.path.dirname(os.path.dirname(os.path.abspath(__file__))), env=env, capture_output=True, text=True,
                       timeout=3000)
    line = [l for l in p.stdout.splitlines() if l.startswith("{")]
    if not line:
        raise RuntimeError("stabrun produced no result: " + p.stderr[-800:])
    r = _json.loads(line[-1])
    iso, aft = r["isolated"], r["after"]
    if not isinstance(aft, list):
        raise RuntimeError(f"stabrun second pass failed: {aft}")
    keep = [k for k in range(len(iso)) if isinstance(iso[k], str) and iso[k] != "T" and aft[k] != "T"]
    if keep:
        trace = {"init": {"fps": [iso[k] for k in keep], "cfps": []},
                 "events": [{"op": "(the same calls after operations on every procedure of the module)", "ok": False,
                             "fps": [aft[k] for k in keep], "cfps": []}]}
        meta = [{"op": "(the same calls after operations on every procedure of the module)",
                 "args": f"{len(keep)} calls, each first observed alone in a forked child; {r['between']} other operations before the second observation",
                 "ok": False, "exc": "", "on": 0, "calls": [r["calls"][k] for k in keep]}]
        emit("rec", {"prog": job["module"].split(".")[-1] + ".*", "session": "module-stability", "trace": trace, "meta": meta,
                     "texts": [""]})


def run_module_stability(modules, seed, per_proc=3, maxprocs=60):
    from .pool import stream_pool
    from .common import MachineryError
    jobs = [{"module": m, "seed": seed, "per_proc": per_proc, "maxprocs": maxprocs} for m in modules]
    recs, crashes, hangs = stream_pool(jobs, _module_stability_job, NCPU, silence=600)
    if crashes:
        raise MachineryError("purity module-stability worker crashed:\n" + crashes[0][1])
    return recs


def run(modules, seed, sessions, length, maxprocs=14, select=None, sweep=0, stability=0):
    from .pool import stream_pool
    from .common import MachineryError
    jobs = []
    for m in modules:
        mod = importlib.import_module(m)
        for idx, p in enumerate(mod.PROCS):
            if select is not None and not select(m, p):
                continue
            jobs.append({"module": m, "index": idx, "seed": seed, "sessions": sessions, "length": length,
                         "maxprocs": maxprocs, "sweep": sweep, "stability": stability})
    recs, crashes, hangs = stream_pool(jobs, _job, NCPU, silence=300)
    if crashes:
        raise MachineryError("purity worker crashed:\n" + crashes[0][1])
    recs.sort(key=lambda r: (r["prog"], str(r["session"])))
    return recs
