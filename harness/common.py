"""Shared machinery: scratch dirs, TLC runner, evidence writer, known findings, reporting.

Exit codes of every check: 0 = property held on everything explored (known findings are
printed as KNOWN-FINDING lines), 1 = at least one VIOLATION line, 2 = machinery failure.
"""
from __future__ import annotations

import contextlib
import hashlib
import json
import os
import re
import shutil
import subprocess
import sys
import tempfile
import time

ROOT = os.path.dirname(os.path.dirname(os.path.abspath(__file__)))
SPEC = os.path.join(ROOT, "spec")
# (both can be redirected for experiments on seeded changes so that they do not disturb /verif/evidence)
EVID = os.environ.get("VERIF_EVIDENCE_DIR", os.path.join(ROOT, "evidence"))
REPLAYS = os.environ.get("VERIF_REPLAY_DIR", os.path.join(ROOT, "replays"))
REPO = os.environ.get("EXO_REPO", "/repo")
TLA_CP = "/opt/veriftools/tla/tla2tools.jar:/opt/veriftools/tla/CommunityModules-deps.jar"
NCPU = int(os.environ.get("VERIF_WORKERS", str(os.cpu_count() or 4)))


class MachineryError(Exception):
    pass


def seed() -> int:
    try:
        return int(os.environ.get("VERIF_SEED", "0"))
    except ValueError:
        return 0


def eff_seed() -> int:
    """The seed that drives case selection and data values.  The quick tier is a fixed, reproducible
    core (effective seed 0 whatever VERIF_SEED is: it is the check run on every change and must give the
    same verdict every time); the thorough tier explores with VERIF_SEED.  Set by checks/args.parse()."""
    try:
        return int(os.environ.get("VERIF_EFF_SEED", "0"))
    except ValueError:
        return 0


@contextlib.contextmanager
def scratch(prefix="exoverif_"):
    base = os.environ.get("VERIF_SCRATCH", "/var/tmp")
    os.makedirs(base, exist_ok=True)
    d = tempfile.mkdtemp(prefix=prefix, dir=base)
    try:
        yield d
    finally:
        shutil.rmtree(d, ignore_errors=True)


_STATES_RE = re.compile(r"(\d+) states generated, (\d+) distinct states found")


class TLCResult:
    def __init__(self):
        self.stdout = ""
        self.generated = 0
        self.distinct = 0
        self.records = []  # parsed PrintT(ToJson(..)) lines
        self.ok = False  # "No error has been found"
        self.violated = None  # name of violated invariant, if any
        self.wall = 0.0
        self.rc = None
        self.depth = 0
        self.coverage = {}


def run_tlc(module, cfg, workdir, env=None, workers=None, timeout=1500, extra=(), jvm=(), heap="8g",
            want_records=True):
    """Run TLC on spec/<module>.tla with spec/<cfg> (copied into workdir).  Returns TLCResult."""
    workers = workers or NCPU
    for fn in os.listdir(SPEC):
        if fn.endswith(".tla"):
            shutil.copy(os.path.join(SPEC, fn), workdir)
    shutil.copy(os.path.join(SPEC, cfg), os.path.join(workdir, cfg))
    meta = os.path.join(workdir, "meta_" + hashlib.md5((module + cfg + str(time.time())).encode()).hexdigest()[:8])
    cmd = ["java", "-XX:+UseParallelGC", f"-Xmx{heap}", *jvm, "-cp", TLA_CP, "tlc2.TLC",
           "-workers", str(workers), "-metadir", meta, "-noGenerateSpecTE",
           "-config", cfg, *extra, module + ".tla"]
    e = dict(os.environ)
    e.update(env or {})
    t0 = time.time()
    try:
        p = subprocess.run(cmd, cwd=workdir, env=e, capture_output=True, text=True, timeout=timeout)
    except subprocess.TimeoutExpired as x:
        subprocess.run(["pkill", "-f", meta], check=False)
        raise MachineryError(f"TLC timeout after {timeout}s on {module}/{cfg}") from x
    r = TLCResult()
    r.wall = time.time() - t0
    r.rc = p.returncode
    r.stdout = p.stdout + "\n" + p.stderr
    for m in _STATES_RE.finditer(r.stdout):
        r.generated, r.distinct = int(m.group(1)), int(m.group(2))
    m = re.search(r"The depth of the complete state graph search is (\d+)", r.stdout)
    if m:
        r.depth = int(m.group(1))
    r.ok = "Model checking completed. No error has been found." in r.stdout
    m = re.search(r"Invariant (\w+) is violated", r.stdout)
    if m:
        r.violated = m.group(1)
    if want_records:
        r.records = parse_printt(r.stdout)
    shutil.rmtree(meta, ignore_errors=True)
    return r


def parse_printt(out: str):
    """PrintT(ToJson(rec)) prints a TLA+ string literal holding JSON: "{\\"u\\":1,...}"."""
    recs = []
    for line in out.splitlines():
        line = line.strip()
        if len(line) > 2 and line[0] == '"' and line[-1] == '"' and line[1] in "{[":
            try:
                recs.append(json.loads(json.loads(line)))
            except Exception:
                try:
                    recs.append(json.loads(line[1:-1].replace('\\"', '"')))
                except Exception:
                    pass
    return recs


def tlc_failure_excerpt(out: str, n=40):
    lines = [l for l in out.splitlines() if l.strip()]
    keep = [l for l in lines if not (l.startswith('"{') or l.startswith('"['))]
    return "\n".join(keep[-n:])


# ---------------------------------------------------------------- known findings
class Findings:
    """known_findings.json: {"known": [{id, property, matcher:{...}, what}], "fixed": [...]}.

    A matcher is a dict of key -> required value (or list of admissible values) that must
    all be present in the violation's `sig` dict (defect-class signature computed by the
    check from the witness: operation, structural facts about its arguments, trap kind ...).
    The file is never written at run time."""

    def __init__(self, path=None):
        path = path or os.path.join(ROOT, "known_findings.json")
        with open(path) as f:
            self.data = json.load(f)
        self.known = self.data.get("known", [])

    def match(self, prop: str, sig: dict):
        for k in self.known:
            if k["property"] != prop:
                continue
            ok = True
            for key, want in k["matcher"].items():
                have = sig.get(key)
                if isinstance(want, list):
                    if have not in want:
                        ok = False
                        break
                elif have != want:
                    ok = False
                    break
            if ok:
                return k
        return None


# ---------------------------------------------------------------- reporting
class Report:
    """Collects outcomes of one check run, prints the protocol lines, writes evidence."""

    def __init__(self, prop: str, tier: str, level: str):
        self.prop = prop
        self.tier = tier
        self.level = level
        self.t0 = time.time()
        self.findings = Findings()
        self.violations = []  # (sig, witness)
        self.known_hits = {}  # finding id -> count
        self.cov = {"samples": []}
        self.assumptions = []
        self.notes = []

    def add_cov(self, **kw):
        for k, v in kw.items():
            if isinstance(v, (int, float)) and not isinstance(v, bool) and isinstance(self.cov.get(k), (int, float)):
                self.cov[k] += v
            else:
                self.cov[k] = v

    def sample(self, s, cap=6):
        if len(self.cov["samples"]) < cap:
            self.cov["samples"].append(s)

    def violation(self, sig: dict, witness: dict):
        """Register a property violation with defect-class signature `sig`."""
        k = self.findings.match(self.prop, sig)
        if k is not None:
            self.known_hits.setdefault(k["id"], [k, 0])[1] += 1
            return "known"
        self.violations.append((sig, witness))
        return "new"

    def finish(self):
        os.makedirs(EVID, exist_ok=True)
        wall = time.time() - self.t0
        for kid, (k, n) in sorted(self.known_hits.items()):
            print(f"KNOWN-FINDING: property={self.prop} {kid}: {k['what']} ({n} witnesses this run)")
        paths = []
        if self.violations:
            d = os.path.join(REPLAYS, self.prop)
            os.makedirs(d, exist_ok=True)
            seen = set()
            for sig, wit in self.violations:
                key = json.dumps(sig, sort_keys=True, default=str)
                if key in seen:
                    continue
                seen.add(key)
                h = hashlib.sha1(key.encode()).hexdigest()[:12]
                path = os.path.join(d, h + ".json")
                with open(path, "w") as f:
                    json.dump({"property": self.prop, "sig": sig, "witness": wit}, f, indent=1, default=str)
                paths.append(path)
                if len(paths) <= 25:
                    print(f"VIOLATION property={self.prop} replay={path}")
                    print("  sig:", json.dumps(sig, sort_keys=True, default=str)[:600])
        cov = dict(self.cov)
        if not cov.get("samples"):
            cov["samples"] = ["(no sample recorded)"]
        cov.setdefault("known_findings_hit", {kid: n for kid, (k, n) in self.known_hits.items()})
        if self.notes:
            cov["notes"] = self.notes
        ev = {
            "property_id": self.prop,
            "tier": self.tier,
            "seed": seed(),
            "effective_seed": eff_seed(),
            "level": self.level,
            "coverage": cov,
            "assumptions": self.assumptions,
            "wall_s": round(wall, 2),
            "violations": len(paths),
        }
        with open(os.path.join(EVID, self.prop + ".json"), "w") as f:
            json.dump(ev, f, indent=1, default=str)
        print(f"[{self.prop}] tier={self.tier} wall={wall:.1f}s violations={len(paths)} "
              f"known={sum(n for _, n in self.known_hits.values())} "
              + " ".join(f"{k}={v}" for k, v in cov.items() if isinstance(v, (int, float)) and not isinstance(v, bool)))
        return 1 if paths else 0


def main_wrapper(fn):
    """Run a check's main(); map MachineryError / unexpected exceptions to exit 2."""
    try:
        rc = fn()
    except MachineryError as e:
        print(f"MACHINERY-FAILURE: {e}", file=sys.stderr)
        sys.exit(2)
    except Exception:
        import traceback

        traceback.print_exc()
        print("MACHINERY-FAILURE: unexpected exception", file=sys.stderr)
        sys.exit(2)
    sys.exit(rc)
