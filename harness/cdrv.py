"""Build and run the real generated C (compile_procs_to_strings output) on explicit inputs.

The result is one *event* per input for spec/ExoMachine.tla's ExoCTrace mode:
  return (with the complete final state), abort (sanitizer report / crash / timeout),
  cc_error (the C compiler rejected the text), nonint (a cell is not an integer: mode Z cannot judge).
"""
from __future__ import annotations

import json
import math
import os
import re
import subprocess

from exo.API import compile_procs_to_strings
from exo.core.LoopIR import T

SAN = ["-fsanitize=address,undefined", "-fno-sanitize-recover=all", "-g", "-fno-omit-frame-pointer"]
WARN = ["-std=c11", "-Wall", "-Werror=implicit-function-declaration", "-Werror=incompatible-pointer-types",
        "-Werror=int-conversion", "-Werror=discarded-qualifiers", "-Wno-unused-variable",
        "-Wno-unused-but-set-variable", "-Wno-unused-function", "-Wno-unknown-pragmas"]


def parse_decl(header: str, name: str):
    m = re.search(r"^void\s+" + re.escape(name) + r"\(\s*(.*?)\s*\);", header, re.S | re.M)
    if not m:
        raise ValueError(f"no declaration of {name} in header")
    params = [p.strip() for p in m.group(1).split(",")]
    # each param: "<type> <ident>"
    out = []
    for p in params:
        mm = re.match(r"(.*?)(\w+)$", p)
        out.append((mm.group(1).strip(), mm.group(2)))
    return out


def cfg_fields_of(exporter):
    """[(config name, field, LoopIR type)] in the unit's cfg order"""
    return [(c.name(), f, c.lookup_type(f)) for (c, f) in exporter.cfgobjs]


def build_driver(procedure, cfg_fields, inputs):
    """returns dict of file name -> text, and proc name"""
    p = procedure.INTERNAL_proc()
    name = str(p.name)
    c, h = compile_procs_to_strings([procedure], f"{name}.h")
    params = parse_decl(h, name)
    has_ctx = f"{name}_Context" in h and "ctxt" in params[0][1]
    L = ["#include <stdio.h>", "#include <stdlib.h>", "#include <string.h>", "#include <stdint.h>",
         "#include <stdbool.h>", f'#include "{name}.h"',
         "int main(int argc, char **argv) {", "  int start = argc > 1 ? atoi(argv[1]) : 0;"]
    for k, inp in enumerate(inputs):
        L.append(f"if (start <= {k}) {{")
        if has_ctx:
            L.append(f"  {name}_Context ctx; memset(&ctx, 0, sizeof ctx);")
            for (cname, fld, typ), v in zip(cfg_fields, inp["cfg"]):
                vv = ("true" if v else "false") if isinstance(v, bool) else v
                L.append(f"  ctx.{cname}.{fld} = {vv};")
        call = ["&ctx" if has_ctx else "NULL"]
        for j, a in enumerate(p.args):
            ptype = params[j + 1][0]
            if a.type.is_numeric():
                b = inp["bufs"][j]
                if a.type.is_win():
                    m = re.match(r"struct\s+(exo_win_\w+)", ptype)
                    sname = m.group(1)
                    base = re.search(r"struct " + sname + r"\{\s*(.*?)\*", h, re.S).group(1)
                    base = base.replace("const", "").strip()
                    cells = ", ".join(str(x) for x in b["cells"])
                    L.append(f"  {base} b{j}[] = {{ {cells} }};")
                    st = ", ".join(str(s) for s in b["strides"])
                    call.append(f"(struct {sname}){{ &b{j}[{b['off']}], {{ {st} }} }}")
                else:
                    base = ptype.replace("const", "").replace("*", "").strip()
                    cells = ", ".join(str(x) for x in b["cells"])
                    L.append(f"  {base} b{j}[] = {{ {cells} }};")
                    call.append(f"b{j}")
            else:
                v = inp["ctl"][j]
                call.append(("true" if v else "false") if isinstance(v, bool) else str(v))
        L.append(f"  {name}({', '.join(call)});")
        L.append(f'  printf("{{\\"case\\":{k},\\"bufs\\":[");')
        for j, a in enumerate(p.args):
            sep = "," if j else ""
            if a.type.is_numeric():
                n = len(inp["bufs"][j]["cells"])
                L.append(f'  printf("{sep}["); for (int q = 0; q < {n}; q++) '
                         f'printf("%s%.17g", q ? "," : "", (double)b{j}[q]); printf("]");')
            else:
                L.append(f'  printf("{sep}[]");')
        L.append('  printf("],\\"cfg\\":[");')
        if has_ctx:
            for q, (cname, fld, typ) in enumerate(cfg_fields):
                sep = "," if q else ""
                L.append(f'  printf("{sep}%.17g", (double)ctx.{cname}.{fld});')
        L.append('  printf("]}\\n"); fflush(stdout);')
        L.append("}")
    L.append("return 0; }")
    return {f"{name}.c": c, f"{name}.h": h, "main.c": "\n".join(L)}, name


def _to_int(v):
    if isinstance(v, (int,)):
        return v
    if isinstance(v, float) and math.isfinite(v) and v == int(v):
        return int(v)
    raise ValueError


def run_c(procedure, cfg_fields, inputs, workdir, cc="gcc", opt="-O1", sanitize=True, extra_flags=(),
          timeout=120, tag="u"):
    """returns list (one per input) of {"event": ..., "out": {"bufs":..., "cfg":...}, "msg": ...}"""
    d = os.path.join(workdir, f"c_{tag}")
    os.makedirs(d, exist_ok=True)
    files, name = build_driver(procedure, cfg_fields, inputs)
    for fn, txt in files.items():
        with open(os.path.join(d, fn), "w") as f:
            f.write(txt)
    fl = [opt, *WARN, *extra_flags]
    if sanitize:
        fl += SAN
    r = subprocess.run([cc, *fl, "-o", "drv", "main.c", f"{name}.c", "-lm"], cwd=d,
                       capture_output=True, text=True)
    if r.returncode != 0:
        return [{"event": "cc_error", "msg": r.stderr[-3000:]} for _ in inputs], files
    outs = [None] * len(inputs)
    start = 0
    env = dict(os.environ)
    env["ASAN_OPTIONS"] = "detect_leaks=1:abort_on_error=0:exitcode=23"
    env["UBSAN_OPTIONS"] = "halt_on_error=1:print_stacktrace=0"
    guard = 0
    while start < len(inputs) and guard < len(inputs) + 2:
        guard += 1
        try:
            r = subprocess.run(["./drv", str(start)], cwd=d, capture_output=True, text=True,
                               timeout=timeout, env=env)
            err = r.stderr
            rc = r.returncode
        except subprocess.TimeoutExpired as x:
            r = None
            err = "timeout"
            rc = -9
            so = x.stdout.decode() if isinstance(x.stdout, bytes) else (x.stdout or "")
        so = r.stdout if r is not None else so
        last = start - 1
        for line in so.splitlines():
            try:
                o = json.loads(line)
            except Exception:
                continue
            last = o["case"]
            outs[last] = {"event": "return", "out": {"bufs": o["bufs"], "cfg": o["cfg"]}}
        if rc == 0:
            break
        # the run died in case last+1 (or in leak checking at exit)
        if last + 1 < len(inputs):
            outs[last + 1] = {"event": "abort", "msg": err[-3000:]}
            start = last + 2
        else:
            # failure after the last case: leak report at exit -> attribute to all cases
            outs = [{"event": "abort", "msg": err[-3000:]} if o is not None else o for o in outs]
            break
    for k, o in enumerate(outs):
        if o is None:
            outs[k] = {"event": "abort", "msg": "no output"}
    return outs, files


def attach_outputs(unit, cfg_fields, outs):
    """Put the compiled program's events into the unit's inputs (mode Z)."""
    for inp, o in zip(unit["inputs"], outs):
        inp["event"] = o["event"]
        inp["out"] = {"bufs": [], "cfg": []}
        if o["event"] == "return":
            try:
                bufs = [[_to_int(v) for v in b] for b in o["out"]["bufs"]]
                cfg = []
                for v, (_, _, t) in zip(o["out"]["cfg"], cfg_fields):
                    cfg.append(bool(v) if t == T.bool else _to_int(v))
                inp["out"] = {"bufs": bufs, "cfg": cfg}
            except ValueError:
                inp["event"] = "nonint"
        if "msg" in o:
            inp["msg"] = o["msg"][-1500:]
