"""Defect-class facts added to a violation's signature (used only for matching known findings)."""
import re


def edge_sig(sig, e, v):
    tb = e.get("text_b") or ""
    if e["op"] == "stage_mem":
        # was a load nest (stg[..] = buf[..]) emitted before the staged block?
        m = re.match(r".*?,(\w+)\[", e["args"])
        buf = m.group(1) if m else "?"
        sig["fact_load_emitted"] = bool(re.search(r"^\s*stg\[.*\] = " + re.escape(buf) + r"\[", tb, re.M))
    ta = e.get("text_a") or ""
    if e["op"] == "resize_dim" and sig.get("fact_fold"):
        # is the folded buffer (or any buffer) viewed through a window with an interval coordinate?
        sig["fact_source_has_interval_window"] = bool(re.search(r"\w+\[[^\]\n]*:[^\]\n]*\]", ta))
    if e["op"] in ("fission", "autofission"):
        # does an if statement of the source test a configuration field (its value can be changed by the first
        # half of a split body)?
        sig["fact_if_guard_reads_config"] = bool(re.search(r"^\s*if [^\n]*\b[A-Za-z_]\w*\.[A-Za-z_]\w*", ta, re.M))
    if e["op"] == "sink_alloc":
        # was the allocation sunk into an if statement that has an else branch?
        sig["fact_into_if_else"] = bool(re.search(r"^\s*else:\n\s*\w+: \w+(\[.*\])? @", tb, re.M))
    if sig.get("class") in ("scope", "safety") and sig.get("detail") in ("", "unbound"):
        # does an allocation's shape in the source mention an enclosing loop iterator?
        iters = set(re.findall(r"^\s*for (\w+) in ", ta, re.M))
        hit = False
        for m in re.finditer(r"^\s*\w+: \w+\[(.*)\] @", ta, re.M):
            if set(re.findall(r"[A-Za-z_]\w*", m.group(1))) & iters:
                hit = True
        sig["fact_alloc_shape_uses_iter"] = hit
        sig["fact_source_has_window_stmt"] = bool(re.search(r"^\s*\w+ = \w+\[[^\]]*:[^\]]*\]\s*$", ta, re.M))
    return sig
