"""Defect-class facts added to a violation's signature (used only for matching known findings)."""
import re


def edge_sig(sig, e, v):
    tb = e.get("text_b") or ""
    if e["op"] == "stage_mem":
        # was a load nest (stg[..] = buf[..]) emitted before the staged block?
        m = re.match(r".*?,(\w+)\[", e["args"])
        buf = m.group(1) if m else "?"
        sig["fact_load_emitted"] = bool(re.search(r"^\s*stg\[.*\] = " + re.escape(buf) + r"\[", tb, re.M))
    return sig
