"""C09: procedures with parallel loops that the real backend accepts, as race-monitor units."""
from __future__ import annotations

import importlib
import random
import signal

from .common import NCPU


class _Timeout(Exception):
    pass


def _alarm(signum, frame):
    raise _Timeout()


def _job(job, emit):
    signal.signal(signal.SIGALRM, _alarm)
    from exo.API import compile_procs_to_strings
    import exo.API_cursors as C
    import exo.stdlib.scheduling as S
    from .export import make_unit, ExportError
    from .inputs import gen_inputs
    from .gen_schedules import walk_stmts

    mod = importlib.import_module(job["module"])
    p = mod.PROCS[job["index"]]
    prog = f"{job['module'].split('.')[-1]}.{p.name()}"
    rng = random.Random(f"{job['seed']}/{prog}/par")
    targets = []
    if "par" in str(p) or any("par(" in str(p) for _ in [0]):
        targets.append(("as-written", p))
    loops = [(s, path) for s, d, path in walk_stmts(p.body()) if isinstance(s, C.ForCursor)]
    for s, path in loops:
        try:
            q = S.parallelize_loop(p, s)
            targets.append((f"parallelize_loop{path}", q))
            # second loop parallelized too (nested / sibling combinations)
            for s2, path2 in loops:
                if path2 > path:
                    try:
                        targets.append((f"parallelize_loop{path}+{path2}", S.parallelize_loop(q, q.forward(s2))))
                    except Exception:
                        pass
        except Exception:
            pass
    # call_eqv to every equivalent variant the corpus offers, then parallelize the loops of the result
    eqv = getattr(mod, "EQV_PROCS", {})
    if eqv:
        for s, d_, path in walk_stmts(p.body()):
            if isinstance(s, C.CallCursor):
                for nm2, e2 in eqv.items():
                    try:
                        q = S.call_eqv(p, s, e2)
                    except Exception:
                        continue
                    for s2, d2, path2 in walk_stmts(q.body()):
                        if isinstance(s2, C.ForCursor):
                            try:
                                targets.append((f"call_eqv{path},{nm2}+parallelize_loop{path2}", S.parallelize_loop(q, s2)))
                            except Exception:
                                pass
    if job.get("max_targets") and len(targets) > job["max_targets"]:
        head = targets[:1]
        rest = targets[1:]
        rng.shuffle(rest)
        targets = head + rest[: job["max_targets"] - 1]
    for k, (how, q) in enumerate(targets):
        emit("begin", k)
        if "par(" not in str(q):
            continue
        rec = {"prog": prog, "how": how, "text": str(q)}
        signal.alarm(90)
        try:
            compile_procs_to_strings([q], "par.h")
            signal.alarm(0)
        except _Timeout:
            rec["status"] = "timeout"
            emit("rec", rec)
            continue
        except Exception as e:
            signal.alarm(0)
            rec["status"] = "backend-rejected"
            rec["exc"] = type(e).__name__
            emit("rec", rec)
            continue
        try:
            qa = q.INTERNAL_proc()
            # phase A: sequential order with the RaceFree monitor; phase B: the same procedure with the iterations of
            # every parallel loop in every order (spec/ExoMachine.tla, Orders) - all final states must equal A's
            unit, ex = make_unit(f"{prog}|{how}", qa, qa, mode="F", race=True, extra={"permute": True})
            unit["inputs"] = [{"a": s} for s in gen_inputs(qa, ex.cfgtypes(), "F", rng, cap=job["cap"])]
            rec["status"] = "compiled"
            rec["unit"] = unit
        except ExportError as e:
            rec["status"] = "export-error"
        emit("rec", rec)


def run(modules, seed, cap, select=None, max_targets=None):
    from .pool import stream_pool
    from .common import MachineryError

    jobs = []
    for m in modules:
        mod = importlib.import_module(m)
        for idx, p in enumerate(mod.PROCS):
            if select is not None and not select(m, p):
                continue
            jobs.append({"module": m, "index": idx, "seed": seed, "cap": cap, "max_targets": max_targets})
    recs, crashes, hangs = stream_pool(jobs, _job, NCPU, silence=200)
    if crashes:
        raise MachineryError("C09 worker crashed:\n" + crashes[0][1])
    recs.sort(key=lambda e: (e["prog"], e["how"]))
    return recs
