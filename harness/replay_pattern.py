"""Spec -> code replay for spec/Pattern.tla: for every tree and every pattern of the specification
the real Procedure.find_all / find (with and without #n) must return exactly the specified blocks
in the specified order, and raise when the specification has no (n-th) match."""
from __future__ import annotations

from exo import DRAM
from exo.API import Procedure
from exo.core.LoopIR import LoopIR, T
from exo.core.prelude import Sym, null_srcinfo
import exo.API_cursors as C

SI = null_srcinfo()

# must equal spec/Pattern.tla!Patterns (same order); rendered to pattern strings below
def _pats():
    Hole = {"k": "hole"}
    PA = lambda n, v: {"k": "assign", "n": n, "v": v}
    PR = lambda n: {"k": "reduce", "n": n}
    PAl = lambda n: {"k": "alloc", "n": n}
    PP = {"k": "pass"}
    PW = lambda n, v: {"k": "wcfg", "n": n, "v": v}
    PF = lambda n, b: {"k": "for", "n": n, "body": b}
    PI = lambda b, e: {"k": "if", "body": b, "orelse": e}
    return [
        [PA("a", 0)], [PA("_", 0)], [PA("a", 1)], [PA("b", 1)], [PR("a")], [PAl("t")],
        [PAl("_")], [PP], [PF("i", [Hole])], [PF("_", [Hole])],
        [PI([Hole], [])], [PI([Hole], [Hole])], [PF("_", [PA("a", 0)])],
        [PA("a", 0), PA("b", 0)], [PA("a", 0), Hole, PA("b", 0)], [Hole, PA("b", 0)],
        [PA("a", 0), Hole], [PF("_", [Hole, PA("b", 0)])], [PI([PA("a", 0)], [Hole])],
        [PF("_", [PF("_", [Hole])])], [PP, PP], [PF("i", [Hole]), PF("j", [Hole])],
        [PI([PP], [])], [PW("f", 0)], [PW("f", 1)], [PW("f", 2), Hole]]


PATTERNS = _pats()


def render(pats, ind=0):
    pad = " " * ind
    lines = []
    for p in pats:
        k = p["k"]
        if k == "hole":
            lines.append(pad + "_")
        elif k == "assign":
            lines.append(pad + f"{p['n']} = " + (f"{float(p['v'])}" if p["v"] else "_"))
        elif k == "reduce":
            lines.append(pad + f"{p['n']} += _")
        elif k == "alloc":
            lines.append(pad + f"{p['n']} : _")
        elif k == "wcfg":
            lines.append(pad + f"PCfg.{p['n']} = " + (f"{float(p['v'])}" if p["v"] else "_"))
        elif k == "pass":
            lines.append(pad + "pass")
        elif k == "for":
            lines.append(pad + f"for {p['n']} in _:")
            lines.append(render(p["body"], ind + 4))
        elif k == "if":
            lines.append(pad + "if _:")
            lines.append(render(p["body"], ind + 4))
            if p["orelse"]:
                lines.append(pad + "else:")
                lines.append(render(p["orelse"], ind + 4))
    return "\n".join(lines)


_CFG = []


def _cfg():
    if not _CFG:
        from exo import config

        @config
        class PCfg:
            f: f32
        _CFG.append(PCfg)
    return _CFG[0]


def build(forest):
    syms = {"a": Sym("a"), "b": Sym("b"), "t": Sym("t")}

    def st(t):
        k = t["kind"]
        if k == "assign":
            return LoopIR.Assign(syms[t["n"]], T.f32, [], LoopIR.Const(float(t["v"]), T.f32, SI), SI)
        if k == "reduce":
            return LoopIR.Reduce(syms[t["n"]], T.f32, [], LoopIR.Const(float(t["v"]), T.f32, SI), SI)
        if k == "wcfg":
            return LoopIR.WriteConfig(_cfg(), t["n"], LoopIR.Const(float(t["v"]), T.f32, SI), SI)
        if k == "pass":
            return LoopIR.Pass(SI)
        if k == "alloc":
            return LoopIR.Alloc(Sym("t"), T.f32, DRAM, SI)
        if k == "for":
            return LoopIR.For(Sym(t["n"]), LoopIR.Const(0, T.index, SI), LoopIR.Const(2, T.index, SI),
                              [st(c) for c in t["body"]], LoopIR.Seq(), SI)
        if k == "if":
            return LoopIR.If(LoopIR.Const(True, T.bool, SI), [st(c) for c in t["body"]], [st(c) for c in t["orelse"]], SI)
        raise ValueError(k)

    args = [LoopIR.fnarg(syms["a"], T.f32, DRAM, SI), LoopIR.fnarg(syms["b"], T.f32, DRAM, SI)]
    return LoopIR.proc("pat", args, [], [st(t) for t in forest], None, SI)


def as_block_record(c):
    impl = c._impl
    if isinstance(c, C.BlockCursor):
        return {"p": [list(x) for x in impl._anchor._path], "a": impl._attr, "lo": impl._range.start, "hi": impl._range.stop}
    path = impl._path
    return {"p": [list(x) for x in path[:-1]], "a": path[-1][0], "lo": path[-1][1], "hi": path[-1][1] + 1}


def normb(m):
    return {"p": [list(x) for x in m["p"]], "a": m["a"], "lo": m["lo"], "hi": m["hi"]}


def replay(rec):
    p = Procedure(build(rec["tree"]))
    out = []
    out_k = replay.last_patterns = []   # indices of the patterns whose find_all answer differed (for the signature)
    for k, want in enumerate(rec["res"]):
        want = [normb(m) for m in want]
        pat = render(PATTERNS[k])
        # find_all
        try:
            got = [as_block_record(c) for c in p.find_all(pat)]
            err = None
        except Exception as e:
            got, err = [], type(e).__name__
        if got != want:
            out.append(f"find_all({pat!r}): impl {got} ({err}) spec {want}")
            out_k.append(k)
            continue
        if not want and err != "SchedulingError":
            out.append(f"find_all({pat!r}): no match must raise SchedulingError, got {err}")
        # find: first match; #n: n-th match; one past the end must raise
        for n in range(len(want) + 1):
            ps = pat if (n == 0 and k % 2 == 0) else f"{pat} #{n}"
            try:
                g = as_block_record(p.find(ps))
                e = None
            except Exception as x:
                g, e = None, type(x).__name__
            if n < len(want):
                if g != want[n]:
                    out.append(f"find({ps!r}): impl {g} ({e}) spec {want[n]}")
            elif e != "SchedulingError":
                out.append(f"find({ps!r}): expected SchedulingError, impl {g} ({e})")
    return out
