"""Shared driver for the properties decided on derivation edges with ExoMachine
(C01, C04, C10, C12, C19, C05): real primitives in workers -> units -> TLC -> verdict census."""
from __future__ import annotations

import collections
import json
import os

from .common import Report, scratch, eff_seed, MachineryError
from .edges import make_jobs, run_jobs
from .machine import run_units, classify, trap_kind, replay_unit
from .facts import edge_sig

SAFETY_TRAPS = {"oob", "oobwin", "rank", "unbound", "rebound", "nonpos", "negtrip", "shape", "alias", "precond", "badarg", "illtyped"}
HEAP_TRAPS = {"uaf", "dfree", "leak", "dangling"}


def verdict_class(v):
    """-> (class, detail): ok | skip | inconclusive | differ | cfg | safety | heap | race | trace | binvalid"""
    if v == "ok":
        return "ok", ""
    if v == "A-invalid":
        return "skip", ""
    if v == "B-invalid":
        return "binvalid", ""
    if v.startswith("inconclusive"):
        return "inconclusive", v
    if v.startswith("A-trap:"):
        k = trap_kind(v)
        if k in ("inexact", "divzero", "winext"):
            return "inconclusive", k
        return "a-trap", k
    if v.startswith("B-trap:"):
        k = trap_kind(v)
        if k in ("inexact", "divzero", "winext"):
            return "inconclusive", k
        if k in SAFETY_TRAPS:
            return "safety", k
        if k in HEAP_TRAPS:
            return "heap", k
        if k == "race":
            return "race", k
        if k.startswith("trace"):
            return "trace", k
        return "safety", k
    if v.startswith("differ:"):
        return "differ", v.split(":", 1)[1]
    if v.startswith("uninit:"):
        return "uninit", v.split(":", 1)[1]
    if v.startswith("cfg-differ:"):
        return "cfg", v.split(":", 1)[1]
    return "other", v


def trap_stmt_kind(unit, v):
    """kind of the statement at which a trap verdict 'X-trap:kind@proc.block.stmt' was raised"""
    try:
        p, b, i = (int(x) for x in v.split("@", 1)[1].split("."))
        return unit["procs"][p - 1]["blocks"][b - 1][i - 1]["k"]
    except Exception:
        return ""


def collect_edges(modules, tier, cap, ops=None, depth2=0, select=None, nshards=4, **kw):
    jobs = make_jobs(modules, eff_seed(), cap, nshards=nshards, ops=ops, depth2=depth2, select=select, **kw)
    edges = run_jobs(jobs)
    edges.sort(key=lambda e: (e["prog"], e["op"], e["args"], str(e.get("chain"))))
    return edges


def decide_edges(rep: Report, edges, viol_classes, stepbound, workdir, sig_fn=None, matrix=None,
                 want_replay=True, timeout=1500, coverage=False):
    """Run all accepted edges' units through TLC; register violations whose class is in
    viol_classes.  Returns per-edge verdict summaries."""
    units, owners = [], []
    by_dedupe = {}
    for e in edges:
        if e["status"] == "accepted":
            if "unit" in e:
                by_dedupe[e["dedupe"]] = len(units)
                units.append(e["unit"])
                owners.append(e)
    res = run_units(units, workdir, stepbound=stepbound, timeout=timeout, coverage=coverage)
    rep.add_cov(states=res.states, transitions=res.generated)
    if res.action_coverage:
        rep.cov["tlc_action_coverage_first_batch"] = dict(sorted(res.action_coverage.items()))
        never = [a for a in ("Start", "AssignS", "WCfgS", "PassS", "AllocS", "FreeS", "WinS", "ForS", "IfS", "EndBlock", "CallS",
                             "RetS", "Finish") if res.action_coverage.get(a, 0) == 0]
        rep.cov["tlc_actions_never_taken_in_first_batch"] = never
    # per unit summary
    summ = {}
    n_inputs = n_conclusive = 0
    for k, u in enumerate(units):
        cnt = collections.Counter()
        first = {}
        for i in range(len(u["inputs"])):
            cls, det = verdict_class(res.verdicts[(k, i)])
            cnt[cls] += 1
            first.setdefault(cls, (i, res.verdicts[(k, i)]))
        summ[k] = (cnt, first)
        n_inputs += len(u["inputs"])
        n_conclusive += cnt["ok"] + sum(cnt[c] for c in ("differ", "uninit", "cfg", "safety", "heap", "race", "trace", "binvalid"))
    scope_bad = {k for k, (oka, okb) in res.scope.items() if oka and not okb}
    rep.add_cov(units_scope_checked=len(res.scope), units_ill_scoped=len(scope_bad),
                units_source_ill_scoped=sum(1 for oka, _ in res.scope.values() if not oka))
    # edges (including duplicates of an already-checked derived procedure)
    stats = collections.Counter()
    opstats = collections.defaultdict(collections.Counter)
    for e in edges:
        opstats[e["op"]][e["status"]] += 1
        if e["status"] != "accepted":
            continue
        k = by_dedupe[e["dedupe"]]
        cnt, first = summ[k]
        bad = [c for c in cnt if c in viol_classes]
        e["verdicts"] = dict(cnt)
        if "scope" in viol_classes and e.get("unprintable"):
            sig = {"op": e["op"], "class": "illformed", "detail": "unprintable", "prog": e["prog"], "args": e["args"]}
            sig.update({f"fact_{kk}": vv for kk, vv in e["facts"].items()})
            rep.violation(edge_sig(sig, e, "illformed"),
                          {"edge": {kk: e[kk] for kk in ("prog", "op", "args", "facts", "chain") if kk in e},
                           "verdict": "the derived procedure cannot be printed: " + e["unprintable"], "text_a": e.get("text_a")})
        if "scope" in viol_classes and k in scope_bad:
            sig = {"op": e["op"], "class": "scope", "detail": "", "prog": e["prog"], "args": e["args"]}
            sig.update({f"fact_{kk}": vv for kk, vv in e["facts"].items()})
            rep.violation(edge_sig(sig, e, "scope"),
                          {"edge": {kk: e[kk] for kk in ("prog", "op", "args", "facts", "chain") if kk in e},
                           "verdict": "ExoProgram!WellScoped is FALSE for the derived unit",
                           "text_a": e.get("text_a"), "text_b": e.get("text_b")})
        if not bad:
            if cnt["ok"] > 0:
                stats["edges_ok"] += 1
                opstats[e["op"]]["ok"] += 1
            else:
                stats["edges_no_conclusive_input"] += 1
            continue
        for cls in bad:
            i, v = first[cls]
            sig = {"op": e["op"], "class": cls, "detail": verdict_class(v)[1].split("@")[0].split("[")[0],
                   "prog": e["prog"], "args": e["args"]}
            sig.update({f"fact_{kk}": vv for kk, vv in e["facts"].items()})
            sig["fact_trap_at"] = trap_stmt_kind(units[k], v)
            sig = edge_sig(sig, e, v)
            if sig_fn:
                sig = sig_fn(sig, e, v)
            wit = {"edge": {kk: e[kk] for kk in ("prog", "op", "args", "facts", "chain") if kk in e},
                   "verdict": v, "input_index": i, "input": units[k]["inputs"][i],
                   "text_a": e.get("text_a"), "text_b": e.get("text_b"), "modset": e.get("modset"),
                   "counts": dict(cnt)}
            status = rep.violation(sig, wit)
            stats["edges_violating_" + status] += 1
            opstats[e["op"]]["violating"] += 1
            if status == "new" and want_replay and stats["replays"] < 5:
                stats["replays"] += 1
                try:
                    cx = replay_unit(units[k], i, workdir)
                    if cx:
                        wit["tlc_counterexample"] = cx[-6000:]
                except MachineryError:
                    pass
    rep.add_cov(evaluations=n_inputs, inputs_conclusive=n_conclusive,
                edges_total=len(edges),
                edges_accepted=sum(1 for e in edges if e["status"] == "accepted"),
                edges_rejected=sum(1 for e in edges if e["status"] == "rejected"),
                edges_noop=sum(1 for e in edges if e["status"] == "noop"),
                edges_export_error=sum(1 for e in edges if e["status"] == "export-error"),
                edges_hung_killed=sum(1 for e in edges if e.get("exc") == "Hang(killed)"),
                distinct_units=len(units), traces_validated_against_impl=len(units),
                distinct_nontrivial=len(units))
    for kk, vv in stats.items():
        rep.add_cov(**{kk: vv})
    rep.cov["per_op"] = {op: dict(c) for op, c in sorted(opstats.items())}
    for e in edges:
        if e["status"] == "accepted" and "unit" in e:
            rep.sample({"prog": e["prog"], "op": e["op"], "args": e["args"], "verdicts": e.get("verdicts"),
                        "derived": e.get("text_b", "")[:400]})
    return summ
