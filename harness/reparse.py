"""C17 (3): print a procedure, parse the text again with the real front end (same memories, configs,
externs and callees in scope), compare printed forms and build an ExoEquiv unit for TLC."""
from __future__ import annotations

import importlib
import itertools
import random
import signal

from .common import NCPU

_ctr = itertools.count()


class _Timeout(Exception):
    pass


def _alarm(signum, frame):
    raise _Timeout()


def scope_for(p):
    """names the printed text may refer to: callees, configs, memories, externs"""
    from exo.API import Procedure
    from exo.core.LoopIR import LoopIR, LoopIR_Do
    import exo.libs.memories as mems
    import exo.libs.externs as exts
    from exo import DRAM

    scope = {"DRAM": DRAM}
    for nm in dir(mems):
        scope.setdefault(nm, getattr(mems, nm))
    for nm in dir(exts):
        if not nm.startswith("_"):
            scope.setdefault(nm, getattr(exts, nm))

    class Walk(LoopIR_Do):
        def __init__(self, proc):
            self.calls = {}
            self.cfgs = {}
            self.mems = {}
            for a in proc.args:
                self._mem(getattr(a, "mem", None))
            super().__init__(proc)

        def _mem(self, m):
            # memory classes defined by the program itself (not in exo.libs.memories) are printed by their name()
            try:
                if m is not None:
                    self.mems[m.name()] = m
            except Exception:
                pass

        def do_s(self, s):
            if isinstance(s, LoopIR.Call):
                self.calls[str(s.f.name)] = s.f
                Walk.__init__  # noqa
                sub = Walk(s.f)
                self.calls.update(sub.calls)
                self.cfgs.update(sub.cfgs)
                self.mems.update(sub.mems)
            elif isinstance(s, LoopIR.Alloc):
                self._mem(s.mem)
            elif isinstance(s, LoopIR.WriteConfig):
                self.cfgs[s.config.name()] = s.config
            super().do_s(s)

        def do_e(self, e):
            if isinstance(e, LoopIR.ReadConfig):
                self.cfgs[e.config.name()] = e.config
            super().do_e(e)

    w = Walk(p.INTERNAL_proc())
    for nm, f in w.calls.items():
        scope[nm] = Procedure(f)
    scope.update(w.cfgs)
    for nm, m in w.mems.items():
        scope.setdefault(nm, m)
    return scope


def well_scoped(ir):
    """harness-side filter (the verdict on scoping is ExoProgram!WellScoped in C04): does every use lie
    in the scope of a binder?  Procedures that are already ill-scoped are outside C17's claim."""
    from exo.core.LoopIR import LoopIR

    def uses(e, acc):
        if isinstance(e, (LoopIR.Read, LoopIR.WindowExpr, LoopIR.StrideExpr)):
            acc.add(e.name)
        if isinstance(e, LoopIR.Read):
            for i in e.idx:
                uses(i, acc)
        elif isinstance(e, LoopIR.WindowExpr):
            for w in e.idx:
                if isinstance(w, LoopIR.Interval):
                    uses(w.lo, acc)
                    uses(w.hi, acc)
                else:
                    uses(w.pt, acc)
        elif isinstance(e, LoopIR.BinOp):
            uses(e.lhs, acc)
            uses(e.rhs, acc)
        elif isinstance(e, LoopIR.USub):
            uses(e.arg, acc)
        elif isinstance(e, LoopIR.Extern):
            for a in e.args:
                uses(a, acc)
        return acc

    def blk(ss, bound):
        bound = set(bound)
        for s in ss:
            u = set()
            if isinstance(s, (LoopIR.Assign, LoopIR.Reduce)):
                u.add(s.name)
                for i in s.idx:
                    uses(i, u)
                uses(s.rhs, u)
            elif isinstance(s, LoopIR.WriteConfig):
                uses(s.rhs, u)
            elif isinstance(s, LoopIR.If):
                uses(s.cond, u)
            elif isinstance(s, LoopIR.For):
                uses(s.lo, u)
                uses(s.hi, u)
            elif isinstance(s, LoopIR.Alloc):
                for x in s.type.shape():
                    uses(x, u)
            elif isinstance(s, LoopIR.WindowStmt):
                uses(s.rhs, u)
            elif isinstance(s, LoopIR.Call):
                for a in s.args:
                    uses(a, u)
            if not u <= bound:
                return False
            if isinstance(s, LoopIR.If):
                if not blk(s.body, bound) or not blk(s.orelse, bound):
                    return False
            elif isinstance(s, LoopIR.For):
                if not blk(s.body, bound | {s.iter}):
                    return False
            elif isinstance(s, (LoopIR.Alloc, LoopIR.WindowStmt)):
                bound.add(s.name)
        return True

    return blk(ir.body, {a.name for a in ir.args})


def reparse(p):
    """-> (status, Procedure or message); status in ok | syntax | rejected"""
    from .corpus.genmod import load_generated
    import sys

    text = str(p)
    modname = f"exoverif_reparse_{next(_ctr)}"
    scope = scope_for(p)
    # make the scope visible to the generated module through an injected import
    holder = f"{modname}_scope"
    import types
    hm = types.ModuleType(holder)
    hm.__dict__.update(scope)
    sys.modules[holder] = hm
    src = ("from __future__ import annotations\nfrom exo import proc, instr, config\n"
           f"from {holder} import *\n\n@proc\n" + text + "\n")
    try:
        mod = load_generated(modname, src)
    except SyntaxError as e:
        return "syntax", f"SyntaxError: {e}"
    except NameError as e:
        return "syntax", f"NameError: {e}"
    except Exception as e:
        nm = type(e).__name__
        if nm == "ParseError":
            return "syntax", f"ParseError: {str(e)[:300]}"
        return "rejected", f"{nm}: {str(e)[:300]}"
    finally:
        sys.modules.pop(holder, None)
    q = getattr(mod, p.name(), None)
    if q is None:
        return "syntax", "procedure not defined by the printed text"
    return "ok", q


def _job(job, emit):
    signal.signal(signal.SIGALRM, _alarm)
    from .gen_schedules import enumerate_candidates
    from .edges import corpus_ctx, canon_proc_hash
    from .export import make_unit, ExportError
    from .inputs import gen_inputs
    from .replay_printenv import InjectivityMonitor

    mod = importlib.import_module(job["module"])
    p = mod.PROCS[job["index"]]
    prog = f"{job['module'].split('.')[-1]}.{p.name()}"
    rng = random.Random(f"{job['seed']}/{prog}/reparse")
    targets = [("", p)]
    cands = enumerate_candidates(p, corpus_ctx(mod), ops=job.get("ops"))
    rng.shuffle(cands)
    seen = {str(p)}
    # name-duplicating operations first
    pri = ("unroll_loop", "inline", "cut_loop", "specialize", "stage_mem", "divide_loop", "fission", "bind_expr",
           "extract_subproc", "unroll_buffer", "inline_window", "expand_dim", "add_loop", "fuse")
    cands.sort(key=lambda c: 0 if c.op in pri else 1)
    for c in cands:
        if len(targets) > job["derived"]:
            break
        signal.alarm(40)
        try:
            q = c.fn()
            signal.alarm(0)
        except BaseException:
            signal.alarm(0)
            continue
        if q is None or str(q) in seen:
            continue
        seen.add(str(q))
        targets.append((f"{c.op}({c.args})", q))
        # one more level for the name-duplicating ones
        if c.op in pri and len(targets) <= job["derived"]:
            try:
                c2s = enumerate_candidates(q, corpus_ctx(mod), ops=list(pri), rich=False)
                rng.shuffle(c2s)
                for c2 in c2s[:3]:
                    try:
                        q2 = c2.fn()
                    except BaseException:
                        continue
                    if q2 is not None and str(q2) not in seen:
                        seen.add(str(q2))
                        targets.append((f"{c.op}({c.args})|{c2.op}({c2.args})", q2))
                        break
            except BaseException:
                pass
    for k, (how, q) in enumerate(targets):
        emit("begin", k)
        rec = {"prog": prog, "how": how}
        if not well_scoped(q.INTERNAL_proc()):
            rec["status"] = "source-ill-scoped"
            emit("rec", rec)
            continue
        signal.alarm(90)
        try:
            with InjectivityMonitor() as mon:
                text = str(q)
            rec["text"] = text
            rec["name_clashes"] = mon.violations[:4]
            st, r = reparse(q)
            rec["status"] = st
            if st != "ok":
                rec["msg"] = r
            else:
                rec["text2"] = str(r)
                rec["same_text"] = (str(r) == text)
                try:
                    unit, ex = make_unit(f"{prog}|{how}|reparse", q.INTERNAL_proc(), r.INTERNAL_proc(), mode="F")
                    unit["inputs"] = [{"a": s} for s in gen_inputs(q.INTERNAL_proc(), ex.cfgtypes(), "F", rng,
                                                                   cap=job["cap"])]
                    rec["unit"] = unit
                except ExportError as e:
                    rec["export_error"] = str(e)[:100]
            signal.alarm(0)
        except _Timeout:
            rec["status"] = "timeout"
        emit("rec", rec)


def run(modules, seed, cap, derived, select=None, ops=None):
    from .pool import stream_pool
    from .common import MachineryError

    jobs = []
    for m in modules:
        mod = importlib.import_module(m)
        for idx, p in enumerate(mod.PROCS):
            if select is not None and not select(m, p):
                continue
            jobs.append({"module": m, "index": idx, "seed": seed, "cap": cap, "derived": derived, "ops": ops})
    recs, crashes, hangs = stream_pool(jobs, _job, NCPU, silence=300)
    if crashes:
        raise MachineryError("reparse worker crashed:\n" + crashes[0][1])
    recs.sort(key=lambda r: (r["prog"], r["how"]))
    return recs
