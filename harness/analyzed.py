"""The IR the C code generator actually prints: the result of the four backend analyses
(ParallelAnalysis, PrecisionAnalysis, WindowAnalysis, MemoryAnalysis) for a procedure and all its
callees, with calls re-targeted to the analysed callees (the compiler compiles each separately)."""
from __future__ import annotations

from exo.backend.LoopIR_compiler import find_all_subprocs
from exo.backend.mem_analysis import MemoryAnalysis
from exo.backend.parallel_analysis import ParallelAnalysis
from exo.backend.prec_analysis import PrecisionAnalysis
from exo.backend.win_analysis import WindowAnalysis
from exo.core.LoopIR import LoopIR, LoopIR_Rewrite


class _Retarget(LoopIR_Rewrite):
    def __init__(self, mapping):
        self.mapping = mapping

    def map_s(self, s):
        if isinstance(s, LoopIR.Call) and id(s.f) in self.mapping:
            return [s.update(f=self.mapping[id(s.f)])]
        return super().map_s(s)

    def map_e(self, e):
        return None


def analyzed_proc(p: LoopIR.proc):
    """p: LoopIR.proc -> analysed LoopIR.proc (callees analysed and re-targeted)."""
    order = list(find_all_subprocs([p]))  # callees first? make it robust: iterate to fixpoint
    mapping = {}
    # process callees before callers
    done = set()

    def visit(q):
        if id(q) in done:
            return
        done.add(id(q))
        from exo.core.LoopIR import LoopIR_Do

        class Calls(LoopIR_Do):
            def __init__(self):
                self.fs = []

            def do_s(self, s):
                if isinstance(s, LoopIR.Call):
                    self.fs.append(s.f)
                super().do_s(s)

            def do_e(self, e):
                pass

        c = Calls()
        c.do_stmts(q.body)
        for f in c.fs:
            visit(f)
        if q.instr is not None:
            # instructions are not compiled from their bodies; their Exo body is their meaning
            a = _Retarget(mapping).apply_proc(q)
            a = MemoryAnalysis().run(a)
        else:
            a = ParallelAnalysis().run(q)
            a = PrecisionAnalysis().run(a)
            a = WindowAnalysis().apply_proc(a)
            a = _Retarget(mapping).apply_proc(a)
            a = MemoryAnalysis().run(a)
        mapping[id(q)] = a

    visit(p)
    return mapping[id(p)]
