"""C18 worker: one fresh interpreter = one run.  Executes the scripted sessions (corpus procedures x a
fixed list of schedule steps) and prints one JSON line per step with digests of the printed procedure
and of the generated C / header text.  Environment: DET_MODULES, DET_OFFSET (dummy symbols and
procedures created first), DET_ORDER (import order of unrelated modules), DET_STEPS."""
from __future__ import annotations

import hashlib
import importlib
import json
import os
import sys


def dig(s):
    return hashlib.sha1(s.encode()).hexdigest()[:12]


def main():
    mods = os.environ["DET_MODULES"].split(",")
    offset = int(os.environ.get("DET_OFFSET", "0"))
    order = os.environ.get("DET_ORDER", "fwd")
    steps = int(os.environ.get("DET_STEPS", "6"))
    from exo.core.prelude import Sym
    from exo import proc
    for k in range(offset):
        Sym(f"dummy{k}")
    if offset:
        # unrelated procedures defined earlier in the process
        from harness.corpus.genmod import load_generated
        src = "from __future__ import annotations\nfrom exo import proc\n" + "".join(
            f"\n@proc\ndef unrelated{k}(n: size, x: f32[n]):\n    for i in seq(0, n):\n        x[i] = {k}.0\n"
            for k in range(min(offset, 5)))
        load_generated("exoverif_det_unrelated", src)
    unrelated = ["harness.corpus.shapes", "harness.corpus.parallel", "harness.corpus.memory"]
    if order == "rev":
        unrelated = unrelated[::-1]
    if order != "none":
        for m in unrelated:
            importlib.import_module(m)
    from exo.API import compile_procs_to_strings
    from harness.gen_schedules import enumerate_candidates
    from harness.edges import corpus_ctx
    import signal

    def alarm(*a):
        raise TimeoutError()
    signal.signal(signal.SIGALRM, alarm)
    for m in mods:
        mod = importlib.import_module(m)
        ctx = corpus_ctx(mod)
        allp = []
        for p in mod.PROCS:
            key = f"{m.split('.')[-1]}.{p.name()}"
            cur = p
            chain = []
            for st in range(steps + 1):
                rec = {"key": key, "step": st, "chain": list(chain), "str": dig(str(cur))}
                try:
                    signal.alarm(60)
                    c, h = compile_procs_to_strings([cur], "det.h")
                    signal.alarm(0)
                    rec["c"], rec["h"] = dig(c), dig(h)
                except BaseException as e:
                    signal.alarm(0)
                    rec["c"] = rec["h"] = "E:" + type(e).__name__
                print(json.dumps(rec), flush=True)
                if st == steps:
                    break
                # next scripted step: the (st*7+3)-th accepted candidate in enumeration order
                cands = enumerate_candidates(cur, ctx, rich=False)
                want = (st * 7 + 3) % max(1, len(cands))
                nxt = None
                for c in cands[want:] + cands[:want]:
                    try:
                        signal.alarm(30)
                        q = c.fn()
                        signal.alarm(0)
                    except BaseException:
                        signal.alarm(0)
                        continue
                    if q is not None and str(q) != str(cur):
                        nxt = (c, q)
                        break
                if nxt is None:
                    break
                chain.append(f"{nxt[0].op}({nxt[0].args})")
                cur = nxt[1]
            allp.append(cur)
        # symbol-counter sweep: procedures rebuilt from source with the global Sym counter preset just below powers of
        # ten (and elsewhere): the outputs must not depend on how many symbols were created earlier in the process
        if os.environ.get("DET_SWEEP", "0") == "1":
            for fname, fac in sorted(getattr(mod, "FACTORIES", {}).items()):
                # (the counter only ever grows in a real process: presets below its current value are skipped)
                presets = sorted([10 ** k - dd for k in (3, 4, 5, 6, 7) for dd in (1, 2, 3, 5, 8, 13, 21, 40)] + [54321, 7654321])
                for pre in presets:
                    if pre < Sym._unq_count:
                        continue
                    rec = {"key": f"{m.split('.')[-1]}.{fname}@factory", "step": 0, "chain": []}
                    try:
                        signal.alarm(120)
                        Sym._unq_count = pre
                        q = fac()
                        c, h = compile_procs_to_strings([q], "det.h")
                        signal.alarm(0)
                        rec.update({"str": dig(str(q)), "c": dig(c), "h": dig(h)})
                    except BaseException as e:
                        signal.alarm(0)
                        rec.update({"str": "E:" + type(e).__name__, "c": "E", "h": "E"})
                    print(json.dumps(rec), flush=True)
        # multi-procedure compiles: several memories / configs / window structs / externs in one library
        from exo.stdlib.scheduling import rename
        libs = {"LIB": list(mod.PROCS)[:16]}
        sched = []
        for q in allp:
            try:
                sched.append(rename(q, q.name() + "_s"))
            except BaseException:
                pass
        libs["LIBS"] = sched[:10]
        for nm, sel in libs.items():
            try:
                signal.alarm(120)
                c, h = compile_procs_to_strings(sel, "lib.h")
                signal.alarm(0)
                rec = {"key": f"{m}.{nm}", "step": 0, "chain": [], "str": "-", "c": dig(c), "h": dig(h)}
            except BaseException as e:
                signal.alarm(0)
                rec = {"key": f"{m}.{nm}", "step": 0, "chain": [], "str": "-", "c": "E:" + type(e).__name__, "h": "E"}
            print(json.dumps(rec), flush=True)


if __name__ == "__main__":
    main()
