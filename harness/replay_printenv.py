"""Spec -> code replay for spec/PrintEnv.tla: each explored history of push / pop / get_name is
performed on the real exo.core.LoopIR_pprint.PrintEnv and the returned strings are compared."""
from __future__ import annotations

from exo.core.LoopIR_pprint import PrintEnv
from exo.core.prelude import Sym


def replay(rec):
    env = PrintEnv()
    stack = [env]
    syms = {}
    out = []
    for k, st in enumerate(rec["h"]):
        if st["op"] == "push":
            stack.append(stack[-1].push())
        elif st["op"] == "pop":
            stack.pop()
        else:
            key = (st["base"], st["id"])
            if key not in syms:
                syms[key] = Sym(st["base"])
            got = stack[-1].get_name(syms[key])
            if got != st["r"]:
                out.append(f"step {k}: get_name({key}) impl {got!r} spec {st['r']!r}")
                break
    return out


class InjectivityMonitor:
    """PrintEnv!Injective evaluated on real printer runs: after every get_name, no two distinct
    symbols visible in the scope chain share a printed string."""

    def __init__(self):
        self.violations = []
        self._orig = None

    def __enter__(self):
        mon = self
        self._orig = PrintEnv.get_name

        def get_name(self_, nm):
            r = mon._orig(self_, nm)
            seen = {}
            for s, txt in self_.env.items():
                if txt in seen and seen[txt] is not s:
                    mon.violations.append((repr(seen[txt]), repr(s), txt))
                seen[txt] = s
            return r
        PrintEnv.get_name = get_name
        return self

    def __exit__(self, *a):
        PrintEnv.get_name = self._orig
