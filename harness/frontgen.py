"""C03: generated Exo source texts around the accept/reject boundary of the front end
(bounds checker, call preconditions, aliasing), compiled by the real @proc; accepted ones become
safety units for ExoMachine."""
from __future__ import annotations

import random
import signal

from .common import NCPU

HDR = "from __future__ import annotations\nfrom exo import proc\n\n"


def _o(rng, lo=-2, hi=2):
    return rng.randint(lo, hi)


def _plus(v, c):
    if c == 0:
        return v
    return f"{v} + {c}" if c > 0 else f"{v} - {-c}"


def template(rng, name):
    """-> (kind, source) ; the entry procedure is called `name`."""
    k = rng.choice(["shift", "shift", "guard", "guard", "callee", "callee", "alloc", "window", "divmod",
                    "alias", "alias", "bounds", "twodim", "winarg", "assertuse", "sizearg", "sizearg"])
    A, B, C, D = _o(rng, 0, 3), _o(rng, 0, 3), _o(rng), _o(rng)
    if k == "shift":
        lo, hi = _o(rng, 0, 2), _o(rng, -1, 3)
        src = (f"@proc\ndef {name}(n: size, x: f32[{_plus('n', A)}], y: f32[{_plus('n', B)}]):\n"
               f"    for i in seq({lo}, {_plus('n', hi)}):\n"
               f"        y[{_plus('i', C)}] = x[{_plus('i', D)}]\n")
    elif k == "guard":
        g = rng.choice([f"{_plus('i', C)} < n", f"i >= {abs(C)}", f"{_plus('i', C)} < {_plus('n', D)} and i >= {abs(D)}",
                        f"i < {_plus('n', -abs(C))}"])
        acc = rng.choice([_plus("i", C), _plus("i", -abs(C)), _plus("i", C + 1), _plus("i", D)])
        els = rng.choice(["", f"        else:\n            y[i] = x[{_plus('i', -abs(D))}]\n"])
        src = (f"@proc\ndef {name}(n: size, x: f32[{_plus('n', A)}], y: f32[n]):\n"
               f"    for i in seq(0, n):\n"
               f"        if {g}:\n"
               f"            y[i] = x[{acc}]\n{els}")
    elif k == "callee":
        m_min = _o(rng, 1, 3)
        need = _o(rng, 0, 3)
        cut = _o(rng, 0, 2)
        off = _o(rng, 0, 2)
        src = (f"@proc\ndef cal_{name}(m: size, w: [f32][m]):\n"
               f"    assert m >= {m_min}\n"
               f"    for j in seq(0, {_plus('m', -(m_min - 1))}):\n"
               f"        w[{_plus('j', m_min - 1)}] = 1.0\n\n"
               f"@proc\ndef {name}(n: size, x: f32[{_plus('n', A)}]):\n"
               f"    assert n >= {need}\n"
               f"    cal_{name}({_plus('n', -cut)}, x[{off}:{_plus('n', off - cut)}])\n")
    elif k == "alloc":
        src = (f"@proc\ndef {name}(n: size, x: f32[n], y: f32[n]):\n"
               f"    t: f32[{_plus('n', C)}]\n"
               f"    for i in seq(0, {_plus('n', D)}):\n"
               f"        t[i] = 1.0\n"
               f"    for i in seq(0, n):\n"
               f"        y[i] = t[{_plus('i', _o(rng, -1, 1))}]\n")
    elif k == "window":
        lo_w, cut = _o(rng, 0, 2), _o(rng, 0, 2)
        ext = _o(rng, -1, 1)
        src = (f"@proc\ndef {name}(n: size, x: f32[{_plus('n', A)}]):\n"
               f"    assert n >= {_o(rng, 1, 4)}\n"
               f"    w = x[{lo_w}:{_plus('n', -cut)}]\n"
               f"    for i in seq(0, {_plus('n', -cut - lo_w + ext)}):\n"
               f"        w[i] = 2.0\n")
    elif k == "divmod":
        q = rng.choice([2, 3, 4])
        e = rng.choice([f"({_plus('i', C)}) / {q}", f"({_plus('i', C)}) % {q}", f"(i * {rng.choice([2, 3])} + {abs(D)}) % {q}",
                        f"i / {q} + i % {q}"])
        shp = rng.choice([str(q), _plus("n", A), f"n / {q} + 1", f"({_plus('n', q - 1)}) / {q}"])
        src = (f"@proc\ndef {name}(n: size, x: f32[{shp}], y: f32[n]):\n"
               f"    for i in seq(0, n):\n"
               f"        y[i] = x[{e}]\n")
    elif k == "alias":
        # the two arguments are the buffers themselves, windows of them, or windows of windows (w = x[..]; v = w[..]),
        # optionally below a loop / branch: the same root buffer must never reach two arguments
        pre = rng.choice(["", "", "w = x[0:2 * n]\n    v = w[0:n]\n    ", "w = x[0:2 * n]\n    v = w[n:2 * n]\n    u = v[0:n]\n    ",
                          "w = y[0:n]\n    v = w[0:n]\n    "])
        cands = ["x[0:n]", "x[n:2 * n]", "y[0:n]"]
        if "w =" in pre:
            cands += ["w[0:n]", "v[0:n]", "v"] + (["u[0:n]", "u"] if "u =" in pre else [])
        a1 = rng.choice(cands)
        a2 = rng.choice(cands + ["y[1:n + 1]"])
        src = (f"@proc\ndef add_{name}(m: size, d: [f32][m], s: [f32][m]):\n"
               f"    for j in seq(0, m):\n"
               f"        d[j] += s[j]\n\n"
               f"@proc\ndef {name}(n: size, x: f32[2 * n], y: f32[{_plus('n', max(A, 1))}]):\n"
               f"    {pre}add_{name}(n, {a1}, {a2})\n")
    elif k == "bounds":
        need = _o(rng, 0, 4)
        src = (f"@proc\ndef {name}(n: size, x: f32[n]):\n"
               f"    assert n >= {need}\n"
               f"    for i in seq({_o(rng, 0, 3)}, {_plus('n', -_o(rng, 0, 3))}):\n"
               f"        x[i] = 0.0\n")
    elif k == "twodim":
        src = (f"@proc\ndef {name}(n: size, m: size, a: f32[n, {_plus('m', A)}], b: f32[{_plus('m', B)}, n]):\n"
               f"    for i in seq(0, n):\n"
               f"        for j in seq(0, {_plus('m', _o(rng, 0, 2))}):\n"
               f"            a[i, {_plus('j', _o(rng, 0, 1))}] = b[{_plus('j', _o(rng, 0, 2))}, {_plus('i', _o(rng, -1, 1))}]\n")
    elif k == "winarg":
        src = (f"@proc\ndef {name}(n: size, m: size, x: [f32][n, m], y: [f32][{_plus('m', A)}]):\n"
               f"    assert m >= {_o(rng, 1, 2)}\n"
               f"    r = x[{_o(rng, 0, 1)}, 0:m]\n"
               f"    for j in seq(0, {_plus('m', _o(rng, -1, 1))}):\n"
               f"        y[{_plus('j', _o(rng, 0, 1))}] = r[j]\n")
    elif k == "sizearg":
        # a size parameter of a callee receives a compound size-typed expression that may be zero or negative;
        # the callee relies on its size being positive only through a local allocation / its own loop
        need = _o(rng, 0, 3)
        e = rng.choice([_plus("n", -_o(rng, 1, 2)), f"n / {rng.choice([2, 3])}", f"n % {rng.choice([2, 3])}", "n - m",
                        f"({_plus('n', -1)}) / 2", f"n - m + {_o(rng, 0, 1)}", _plus("n", 1), "m"])
        body = rng.choice(["    t: f32[k]\n    for j in seq(0, k):\n        t[j] = 1.0\n    out[0] = t[k - 1]\n",
                           "    t: f32[k]\n    t[0] = 2.0\n    out[0] = t[0]\n",
                           "    for j in seq(0, k):\n        out[0] += 1.0\n"])
        src = (f"@proc\ndef cnt_{name}(k: size, out: f32[1]):\n{body}\n"
               f"@proc\ndef {name}(n: size, m: size, out: f32[1]):\n"
               f"    assert n >= {need}\n"
               + rng.choice(["", "    assert m <= n\n", "    assert m < n\n"]) +
               f"    cnt_{name}({e}, out)\n")
    else:  # assertuse: the assertion is what makes the access safe (or just fails to)
        need = _o(rng, 1, 4)
        acc = _o(rng, 0, 4)
        src = (f"@proc\ndef {name}(n: size, k: index, x: f32[n]):\n"
               f"    assert n >= {need}\n"
               f"    assert k >= {_o(rng, -1, 1)}\n"
               f"    assert k < {_plus('n', -_o(rng, 0, 2))}\n"
               f"    x[{acc}] = 1.0\n"
               f"    x[{_plus('k', _o(rng, -1, 2))}] = 2.0\n")
    return k, HDR + src


class _Timeout(Exception):
    pass


def _alarm(signum, frame):
    raise _Timeout()


def _job(job, emit):
    signal.signal(signal.SIGALRM, _alarm)
    from .corpus.genmod import load_generated
    from .export import make_unit, ExportError
    from .inputs import gen_inputs

    for t in range(job["start"], job["stop"]):
        emit("begin", t)
        rng = random.Random(f"frontgen/{job['seed']}/{t}")
        name = f"fg{t}"
        kind, src = template(rng, name)
        rec = {"id": t, "kind": kind, "src": src}
        signal.alarm(60)
        try:
            mod = load_generated(f"exoverif_fg_{job['seed']}_{t}", src)
            signal.alarm(0)
        except _Timeout:
            rec["status"] = "timeout"
            emit("rec", rec)
            continue
        except Exception as e:
            signal.alarm(0)
            rec["status"] = "rejected"
            rec["exc"] = type(e).__name__
            emit("rec", rec)
            continue
        p = getattr(mod, name)
        try:
            pa = p.INTERNAL_proc()
            unit, ex = make_unit(f"fg{t}:{kind}", pa, None, mode="F")
            rng2 = random.Random(f"frontgen-in/{job['seed']}/{t}")
            unit["inputs"] = [{"a": s} for s in gen_inputs(pa, ex.cfgtypes(), "F", rng2, cap=job["cap"],
                                                           idxs=(-2, -1, 0, 1, 2, 3))]
            rec["status"] = "accepted"
            rec["unit"] = unit
        except ExportError:
            rec["status"] = "export-error"
        emit("rec", rec)


def run(n, seed, cap, chunk=12):
    from .pool import stream_pool
    from .common import MachineryError

    jobs = [{"start": s, "stop": min(n, s + chunk), "seed": seed, "cap": cap} for s in range(0, n, chunk)]
    recs, crashes, hangs = stream_pool(jobs, _job, NCPU, silence=200, maxjobs=6)
    if crashes:
        raise MachineryError("frontgen worker crashed:\n" + crashes[0][1])
    recs.sort(key=lambda r: r["id"])
    return recs
