"""Spec -> code replay for spec/CursorTree.tla: every navigation result the specification computed
is recomputed with the public cursor API (exo.API_cursors) on a real Procedure of the same shape."""
from __future__ import annotations

import exo.API_cursors as C
from exo.API import Procedure
from exo.core import internal_cursors as ic

from .replay_cursor import build, project, norm


def api_node(p, path):
    blk = p.body()
    cur = None
    for k, (attr, i) in enumerate(path):
        if k > 0:
            blk = cur.body() if attr == "body" else cur.orelse()
        cur = blk[i]
    return cur


def api_cursor(p, c):
    if c["t"] == "n":
        return api_node(p, c["p"])
    if c["t"] == "b":
        if not c["p"]:
            blk = p.body()
        else:
            par = api_node(p, c["p"])
            blk = par.body() if c["a"] == "body" else par.orelse()
        return blk[c["lo"]:c["hi"]]
    raise ValueError(c)


def proj(r):
    if isinstance(r, C.InvalidCursor):
        return {"t": "x"}
    return project(r._impl)


def replay(rec):
    p = Procedure(build(rec["tree"]))
    out = []
    for x in rec["nav"]:
        op, a = x["op"], x["a"]
        try:
            c = api_cursor(p, x["c"])
            if op == "parent" or op == "block_parent":
                r = c.parent()
            elif op == "next":
                r = c.next(a[0])
            elif op == "prev":
                r = c.prev(a[0])
            elif op == "before_anchor":
                r = c.before().anchor()
            elif op == "after_anchor":
                r = c.after().anchor()
            elif op == "body":
                r = c.body()
            elif op == "orelse":
                r = c.orelse()
            elif op == "as_block":
                r = c.as_block()
            elif op == "index":
                try:
                    r = c[a[0]]
                except IndexError:
                    r = C.InvalidCursor()
            elif op == "slice":
                r = c[a[0]:a[1]]
            elif op == "expand":
                r = c.expand(None if a[0] < 0 else a[0], None if a[1] < 0 else a[1])
            elif op == "block_before":
                r = c.before()
            elif op == "block_after":
                r = c.after()
            else:
                raise ValueError(op)
            got = proj(r)
        except ic.InvalidCursorError:
            got = {"t": "x"}
        except Exception as e:
            got = {"t": "!", "exc": f"{type(e).__name__}: {e}"}
        if norm(got) != norm(x["r"]):
            out.append(f"{op}{a} on {x['c']}: impl {got} spec {x['r']}")
    return out
