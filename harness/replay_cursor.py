"""Spec -> code replay for spec/CursorEdit.tla: every transition TLC explored (tree, elementary
edit, every cursor with its spec-forwarded image) is performed on real
exo.core.internal_cursors objects; the new tree and every forwarded cursor must be equal."""
from __future__ import annotations

from exo.core import internal_cursors as ic
from exo.core.LoopIR import LoopIR, T
from exo.core.prelude import Sym, null_srcinfo

SI = null_srcinfo()
_X = Sym("x")


def build(t):
    """spec tree record -> LoopIR node (labels stored in constants)"""
    if t["kind"] == "proc":
        return LoopIR.proc("shape", [LoopIR.fnarg(_X, T.f32, None, SI)], [], [build(c) for c in t["body"]], None, SI)
    if t["kind"] == "s":
        return LoopIR.Assign(_X, T.f32, [], LoopIR.Const(float(t["lab"]), T.f32, SI), SI)
    if t["kind"] == "for":
        return LoopIR.For(Sym(f"i{t['lab']}"), LoopIR.Const(0, T.index, SI), LoopIR.Const(t["lab"], T.index, SI),
                          [build(c) for c in t["body"]], LoopIR.Seq(), SI)
    if t["kind"] == "if":
        return LoopIR.If(LoopIR.Const(t["lab"], T.int, SI), [build(c) for c in t["body"]],
                         [build(c) for c in t["orelse"]], SI)
    raise ValueError(t["kind"])


def shape(n, fresh):
    """LoopIR node -> spec tree record; Pass statements (only created by _delete) get the next fresh label"""
    if isinstance(n, LoopIR.proc):
        return {"lab": 0, "kind": "proc", "body": [shape(c, fresh) for c in n.body], "orelse": []}
    if isinstance(n, LoopIR.Assign):
        return {"lab": int(n.rhs.val), "kind": "s", "body": [], "orelse": []}
    if isinstance(n, LoopIR.Pass):
        return {"lab": fresh[0], "kind": "s", "body": [], "orelse": []}
    if isinstance(n, LoopIR.For):
        return {"lab": int(n.hi.val), "kind": "for", "body": [shape(c, fresh) for c in n.body], "orelse": []}
    if isinstance(n, LoopIR.If):
        return {"lab": int(n.cond.val), "kind": "if", "body": [shape(c, fresh) for c in n.body],
                "orelse": [shape(c, fresh) for c in n.orelse]}
    raise ValueError(type(n))


def max_label(t):
    m = t["lab"]
    for c in t["body"] + t["orelse"]:
        m = max(m, max_label(c))
    return m


def to_path(p):
    return [(a, i) for a, i in p]


def cursor(root, c):
    if c["t"] == "n":
        return ic.Node(root, to_path(c["p"]))
    if c["t"] == "g":
        n = ic.Node(root, to_path(c["p"]))
        return ic.Gap(root, n, ic.GapType.Before if c["side"] == "before" else ic.GapType.After)
    if c["t"] == "b":
        return ic.Block(root, ic.Node(root, to_path(c["p"])), c["a"], range(c["lo"], c["hi"]))
    raise ValueError(c)


def project(cur):
    """real cursor -> spec cursor record"""
    if isinstance(cur, ic.Gap):
        return {"t": "g", "p": [list(x) for x in cur._anchor._path],
                "side": "before" if cur._type == ic.GapType.Before else "after"}
    if isinstance(cur, ic.Block):
        return {"t": "b", "p": [list(x) for x in cur._anchor._path], "a": cur._attr,
                "lo": cur._range.start, "hi": cur._range.stop}
    return {"t": "n", "p": [list(x) for x in cur._path]}


def norm(c):
    if c.get("t") == "x":
        return {"t": "x"}
    d = dict(c)
    d["p"] = [list(x) for x in d["p"]]
    return d


def fresh_stmts(lab0, k):
    return [LoopIR.Assign(_X, T.f32, [], LoopIR.Const(float(lab0 + j + 1), T.f32, SI), SI) for j in range(k)]


def apply_edit(root, tree, e):
    """perform the spec's edit record on the real tree; returns (new_root, fwd)"""
    ml = max_label(tree)
    k = e["k"]
    if k == "insert":
        return cursor(root, e["g"])._insert(fresh_stmts(ml, e["n"]))
    if k == "replace":
        return cursor(root, e["b"])._replace(fresh_stmts(ml, e["n"]))
    if k == "delete":
        return cursor(root, e["b"])._delete()
    if k == "wrap":
        lab = ml + 1

        def ctor(body):
            return LoopIR.For(Sym(f"w{lab}"), LoopIR.Const(0, T.index, SI), LoopIR.Const(lab, T.index, SI), body,
                              LoopIR.Seq(), SI)
        return cursor(root, e["b"])._wrap(ctor, "body")
    if k == "move":
        return cursor(root, e["b"])._move(cursor(root, e["g"]))
    raise ValueError(k)


def replay(rec):
    """-> list of mismatch descriptions (empty = the implementation did exactly what the spec says)"""
    out = []
    tree = rec["tree"]
    root = build(tree)
    try:
        new_root, fwd = apply_edit(root, tree, rec["edit"])
    except Exception as x:
        return [f"edit raised {type(x).__name__}: {x}"]
    got_tree = shape(new_root, [max_label(tree) + 1])
    if got_tree != rec["ntree"]:
        out.append(f"tree mismatch: impl {got_tree} spec {rec['ntree']}")
    for c, r in rec["fw"]:
        try:
            img = project(fwd(cursor(root, c)))
        except ic.InvalidCursorError:
            img = {"t": "x"}
        except AssertionError:
            img = {"t": "x"}  # _forward_move asserts where the spec says Invalid
        except Exception as x:
            img = {"t": "!", "exc": f"{type(x).__name__}: {x}"}
        if norm(img) != norm(r):
            out.append(f"cursor {c}: impl {img} spec {r}")
    return out
