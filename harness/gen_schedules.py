"""Systematic enumeration of scheduling candidates (primitive x cursor x argument grid), DESIGN 5.2.

Every candidate is a thunk applying a *real* scheduling operation to a real Procedure.
Rejected candidates (any exception) are kept by the callers as the negative half of
"raises an error instead of returning a procedure".  Operations with explicit unsafe
switches (unsafe_disable_check, add_unsafe_guard) are never enumerated.
"""
from __future__ import annotations

import itertools

from exo import DRAM
from exo import API_cursors as C
from exo.core.LoopIR import LoopIR, T
from exo.libs.memories import DRAM_STACK, DRAM_STATIC
import exo.stdlib.scheduling as S
import exo.API_scheduling as AS


class Cand:
    __slots__ = ("op", "args", "fn", "facts")

    def __init__(self, op, args, fn, facts=None):
        self.op = op
        self.args = args
        self.fn = fn
        self.facts = facts or {}

    def __repr__(self):
        return f"{self.op}({self.args})"


# ------------------------------------------------------------------ traversal
def walk_stmts(block, depth=0, path=()):
    """yield (stmt cursor, depth, path) in program order"""
    for k, s in enumerate(block):
        yield s, depth, path + (k,)
        if isinstance(s, C.ForCursor):
            yield from walk_stmts(s.body(), depth + 1, path + (k, "b"))
        elif isinstance(s, C.IfCursor):
            yield from walk_stmts(s.body(), depth + 1, path + (k, "b"))
            if not isinstance(s.orelse(), C.InvalidCursor):
                yield from walk_stmts(s.orelse(), depth + 1, path + (k, "o"))


def blocks_of(p):
    """all statement lists (as block cursors)"""
    out = [p.body()]
    for s, _, _ in walk_stmts(p.body()):
        if isinstance(s, C.ForCursor):
            out.append(s.body())
        elif isinstance(s, C.IfCursor):
            out.append(s.body())
            if not isinstance(s.orelse(), C.InvalidCursor):
                out.append(s.orelse())
    return out


def walk_exprs(e):
    yield e
    if isinstance(e, C.BinaryOpCursor):
        yield from walk_exprs(e.lhs())
        yield from walk_exprs(e.rhs())
    elif isinstance(e, C.UnaryMinusCursor):
        yield from walk_exprs(e.arg())
    elif isinstance(e, C.ExternFunctionCursor):
        for a in e.args():
            yield from walk_exprs(a)
    elif isinstance(e, C.ReadCursor):
        for i in e.idx():
            yield from walk_exprs(i)


def stmt_exprs(s):
    if isinstance(s, (C.AssignCursor, C.ReduceCursor)):
        for i in s.idx():
            yield from walk_exprs(i)
        yield from walk_exprs(s.rhs())
    elif isinstance(s, C.IfCursor):
        yield from walk_exprs(s.cond())
    elif isinstance(s, C.ForCursor):
        yield from walk_exprs(s.lo())
        yield from walk_exprs(s.hi())
    elif isinstance(s, C.AssignConfigCursor):
        yield from walk_exprs(s.rhs())


def loc(c):
    """stable textual location of a cursor for reports"""
    try:
        return str(c._impl._path)
    except Exception:
        return "?"


def _lo_is_zero(loop):
    n = loop._impl._node
    return isinstance(n.lo, LoopIR.Const) and n.lo.val == 0


def _expr_str(e):
    return str(e._impl._node)


# ------------------------------------------------------------------ the grid
def enumerate_candidates(p, ctx=None, ops=None, rich=True):
    """All candidates for Procedure p.  ctx: dict with optional 'configs' (list of Config),
    'subprocs' (dict name -> Procedure for replace/call_eqv), 'mems'."""
    ctx = ctx or {}
    out = []

    def add(op, args, fn, **facts):
        if ops is None or op in ops:
            out.append(Cand(op, args, fn, facts))

    stmts = list(walk_stmts(p.body()))
    add("simplify", "", lambda: S.simplify(p))
    add("delete_pass", "", lambda: S.delete_pass(p))

    names = itertools.count()

    for s, depth, path in stmts:
        L = loc(s)
        # ---------------- loops
        if isinstance(s, C.ForCursor):
            nm = s.name()
            lo0 = _lo_is_zero(s)
            hi_s, lo_s = _expr_str(s.hi()), _expr_str(s.lo())
            for c in (2, 3, 4):
                for tail in ("guard", "cut", "cut_and_guard"):
                    add("divide_loop", f"{L},{c},{tail}",
                        lambda s=s, c=c, tail=tail, nm=nm: S.divide_loop(p, s, c, [nm + "o", nm + "i"], tail=tail),
                        lo_is_zero=lo0, tail=tail)
                add("divide_loop", f"{L},{c},perfect",
                    lambda s=s, c=c, nm=nm: S.divide_loop(p, s, c, [nm + "o", nm + "i"], perfect=True),
                    lo_is_zero=lo0, tail="perfect")
            for cp in ("0", "1", "2", f"{lo_s} + 1", f"{hi_s} - 1", hi_s, lo_s, f"({hi_s}) / 2"):
                add("cut_loop", f"{L},{cp}", lambda s=s, cp=cp: S.cut_loop(p, s, cp), lo_is_zero=lo0)
            for nl in ("0", "1", "2", "3"):
                add("shift_loop", f"{L},{nl}", lambda s=s, nl=nl: S.shift_loop(p, s, nl), lo_is_zero=lo0)
            add("unroll_loop", L, lambda s=s: S.unroll_loop(p, s), lo_is_zero=lo0)
            add("remove_loop", L, lambda s=s: S.remove_loop(p, s), lo_is_zero=lo0,
                lo=lo_s, hi=hi_s)
            add("reorder_loops", L, lambda s=s: S.reorder_loops(p, s), lo_is_zero=lo0)
            add("mult_loops", L, lambda s=s, nm=nm: S.mult_loops(p, s, nm + "m"), lo_is_zero=lo0)
            add("lift_scope", L, lambda s=s: S.lift_scope(p, s.body()[0]) if len(s.body()) else None,
                kind="for-child")
            # (outer_hi, outer_stride): literals, quotients whose divisor equals the stride, and quotients whose
            # divisor differs from it (both ways)
            for oh, os_ in (("1", 2), ("2", 2), (f"({hi_s}) / 2", 2), (f"({hi_s}) / 4", 4), ("2", 1),
                            (f"({hi_s}) / 4", 8), (f"({hi_s}) / 8", 4), (f"({hi_s}) / 2", 4), (f"({hi_s}) / 4", 2),
                            (f"({hi_s}) / 3", 2), (f"({hi_s} + 1) / 2", 2)):
                add("divide_with_recompute", f"{L},{oh},{os_}",
                    lambda s=s, oh=oh, os_=os_, nm=nm: S.divide_with_recompute(p, s, oh, os_, [nm + "o", nm + "i"]),
                    lo_is_zero=lo0)
            nx = s.next()
            if isinstance(nx, C.ForCursor):
                same_lo = _expr_str(nx.lo()) == lo_s
                same_hi = _expr_str(nx.hi()) == hi_s
                add("fuse", L, lambda s=s, nx=nx: S.fuse(p, s, nx), same_lo=same_lo, same_hi=same_hi, kind="for")
                add("join_loops", L, lambda s=s, nx=nx: S.join_loops(p, s, nx), same_lo=same_lo)
        # ---------------- ifs
        if isinstance(s, C.IfCursor):
            nx = s.next()
            if isinstance(nx, C.IfCursor):
                add("fuse", L, lambda s=s, nx=nx: S.fuse(p, s, nx), kind="if")
            add("eliminate_dead_code", L, lambda s=s: S.eliminate_dead_code(p, s))
            add("lift_scope", L + "/if", lambda s=s: S.lift_scope(p, s.body()[0]) if len(s.body()) else None,
                kind="if-child")
        if isinstance(s, (C.ForCursor, C.IfCursor)) and depth > 0:
            add("lift_scope", L + "/self", lambda s=s: S.lift_scope(p, s), kind="self",
                shape=_lift_shape(s))
        if isinstance(s, C.ForCursor):
            add("eliminate_dead_code", L, lambda s=s: S.eliminate_dead_code(p, s))
        # ---------------- any statement
        add("insert_pass", L, lambda s=s: S.insert_pass(p, s.before()))
        if rich:
            for hi in ("1", "2", "3"):
                for guard in (False, True):
                    add("add_loop", f"{L},{hi},{guard}",
                        lambda s=s, hi=hi, guard=guard: S.add_loop(p, s, "q", hi, guard=guard), guard=guard)
        nx = s.next()
        if not isinstance(nx, C.InvalidCursor):
            add("reorder_stmts", L, lambda s=s: S.reorder_stmts(p, s.expand(0, 1)))
            add("merge_writes", L, lambda s=s: S.merge_writes(p, s.expand(0, 1)))
            for nl in (1, 2, 3):
                if nl <= depth:
                    add("fission", f"{L},{nl}", lambda s=s, nl=nl: S.fission(p, s.after(), n_lifts=nl), n_lifts=nl)
            if depth >= 1:
                add("autofission", f"{L}", lambda s=s, depth=depth: S.autofission(p, s.after(), n_lifts=depth))
        # specialize on simple conditions over visible size/index names
        if rich and isinstance(s, (C.ForCursor, C.AssignCursor, C.ReduceCursor)):
            for cond in _conds_for(p, s):
                add("specialize", f"{L},{cond}", lambda s=s, cond=cond: S.specialize(p, s, [cond]))
        # extract_subproc
        if rich and isinstance(s, (C.ForCursor, C.IfCursor, C.AssignCursor)):
            add("extract_subproc", L, lambda s=s: S.extract_subproc(p, s, "sub_" + str(next(names)))[0])
        # ---------------- assigns / reduces
        if isinstance(s, (C.AssignCursor, C.ReduceCursor)):
            add("split_write", L, lambda s=s: S.split_write(p, s))
            add("lift_reduce_constant", L, lambda s=s: S.lift_reduce_constant(p, s.expand(1, 0)))
            if isinstance(s, C.AssignCursor):  # the documented form: the zero assignment followed by the reduction loop
                add("lift_reduce_constant", L + "+1", lambda s=s: S.lift_reduce_constant(p, s.expand(0, 1)))
            if isinstance(s, C.AssignCursor):
                add("fold_into_reduce", L, lambda s=s: S.fold_into_reduce(p, s))
            # expression primitives
            seen = set()
            for e in stmt_exprs(s):
                es = _expr_str(e)
                if isinstance(e, C.BinaryOpCursor):
                    add("commute_expr", f"{L}:{es}", lambda e=e: S.commute_expr(p, [e]), op_=e.op())
                    add("left_reassociate_expr", f"{L}:{es}", lambda e=e: S.left_reassociate_expr(p, e), op_=e.op())
                if rich and es not in seen and isinstance(e, (C.BinaryOpCursor, C.ReadCursor)):
                    seen.add(es)
                    try:
                        numeric = e._impl._node.type.is_real_scalar()
                    except Exception:
                        numeric = False
                    if numeric:
                        add("bind_expr", f"{L}:{es}", lambda e=e: S.bind_expr(p, [e], "bnd"))
                        for cfg in ctx.get("configs", []):
                            for fld in _cfg_fields(cfg):
                                add("bind_config", f"{L}:{es},{cfg.name()}.{fld}",
                                    lambda e=e, cfg=cfg, fld=fld: S.bind_config(p, e, cfg, fld))
            # stage_mem on windows derived from the actual accesses
            if rich:
                for win in _windows_for(s):
                    add("stage_mem", f"{L},{win}", lambda s=s, win=win: S.stage_mem(p, s, win, "stg"))
                    add("stage_mem", f"{L},{win},accum", lambda s=s, win=win: S.stage_mem(p, s, win, "stg", accum=True))
        # stage_mem around loops
        if rich and isinstance(s, C.ForCursor):
            for win in _loop_windows(p, s):
                add("stage_mem", f"{L},{win}", lambda s=s, win=win: S.stage_mem(p, s, win, "stg"))
                add("stage_mem", f"{L},{win},accum", lambda s=s, win=win: S.stage_mem(p, s, win, "stg", accum=True))
        # ---------------- allocs
        if isinstance(s, C.AllocCursor):
            nd = len(s.shape()) if s.is_tensor() else 0
            for nl in (1, 2):
                add("lift_alloc", f"{L},{nl}", lambda s=s, nl=nl: S.lift_alloc(p, s, n_lifts=nl))
            add("autolift_alloc", f"{L}", lambda s=s: S.autolift_alloc(p, s, n_lifts=2, mode="row", keep_dims=True))
            add("autolift_alloc", f"{L},col", lambda s=s: S.autolift_alloc(p, s, n_lifts=1, mode="col"))
            add("sink_alloc", L, lambda s=s: S.sink_alloc(p, s))
            add("delete_buffer", L, lambda s=s: S.delete_buffer(p, s))
            add("inline_assign", L, lambda s=s: S.inline_assign(p, s.next()) if isinstance(s.next(), C.AssignCursor) else None)
            for s2, _, _ in stmts:
                if isinstance(s2, C.AllocCursor) and s2 is not s and loc(s2) != L:
                    add("reuse_buffer", f"{L},{loc(s2)}", lambda s=s, s2=s2: S.reuse_buffer(p, s, s2))
            for size, idx in _expand_args(p, s):
                add("expand_dim", f"{L},{size},{idx}", lambda s=s, size=size, idx=idx: S.expand_dim(p, s, size, idx))
            for d in range(nd):
                shp = _expr_str(s.shape()[d])
                for size, off in ((shp, "0"), (f"{shp} + 1", "0"), (f"{shp} - 1", "0"), (f"{shp} - 1", "1"),
                                  ("2", "0"), ("3", "0"), (f"{shp} + 2", "-1"), ("1", "0")):
                    add("resize_dim", f"{L},{d},{size},{off}",
                        lambda s=s, d=d, size=size, off=off: S.resize_dim(p, s, d, size, off))
                for fsz in (1, 2, 3, 4):
                    add("resize_dim", f"{L},{d},{fsz},fold",
                        lambda s=s, d=d, fsz=fsz: S.resize_dim(p, s, d, fsz, 0, fold=True), fold=True)
                for q in (2, 4):
                    add("divide_dim", f"{L},{d},{q}", lambda s=s, d=d, q=q: S.divide_dim(p, s, d, q))
                add("unroll_buffer", f"{L},{d}", lambda s=s, d=d: S.unroll_buffer(p, s, d))
                for d2 in range(nd):
                    if d2 != d:
                        add("mult_dim", f"{L},{d},{d2}", lambda s=s, d=d, d2=d2: S.mult_dim(p, s, d, d2))
            if nd >= 2:
                for perm in itertools.permutations(range(nd)):
                    if list(perm) != list(range(nd)):
                        add("rearrange_dim", f"{L},{perm}", lambda s=s, perm=perm: S.rearrange_dim(p, s, list(perm)))
        # ---------------- calls / windows / config writes
        if isinstance(s, C.CallCursor):
            add("inline", L, lambda s=s: S.inline(p, s))
            for nm2, q in ctx.get("eqv_procs", {}).items():
                add("call_eqv", f"{L},{nm2}", lambda s=s, q=q: S.call_eqv(p, s, q), target=nm2,
                    foreign=nm2.endswith("!"))
        if isinstance(s, C.WindowStmtCursor):
            add("inline_window", L, lambda s=s: S.inline_window(p, s))
        if isinstance(s, C.AssignConfigCursor):
            add("delete_config", L, lambda s=s: S.delete_config(p, s))
        if rich:
            for cfg in ctx.get("configs", []):
                for fld in _cfg_fields(cfg):
                    for rhs in _cfg_rhs(p, cfg, fld):
                        add("write_config", f"{L},{cfg.name()}.{fld},{rhs}",
                            lambda s=s, cfg=cfg, fld=fld, rhs=rhs: S.write_config(p, s.before(), cfg, fld, rhs))
    # replace with known sub-procedures
    for nm2, q in ctx.get("subprocs", {}).items():
        nbody = len(q.INTERNAL_proc().body)
        for s, depth, path in stmts:
            if isinstance(s, (C.ForCursor, C.AssignCursor, C.ReduceCursor, C.IfCursor)):
                add("replace", f"{loc(s)},{nm2}", lambda s=s, q=q: S.replace(p, s, q), callee=nm2,
                    block_len=1, callee_len=nbody)
                for ext in (1, 2):
                    blk = s.expand(0, ext)
                    if len(blk) == 1 + ext:
                        add("replace", f"{loc(s)}+{ext},{nm2}", lambda blk=blk, q=q: S.replace(p, blk, q),
                            callee=nm2, block_len=1 + ext, callee_len=nbody)
        add("replace_all", nm2, lambda q=q: S.replace_all(p, [q]), callee=nm2)
    return out


def _lift_shape(s):
    """structural class of a lift_scope candidate: inner/outer kinds and presence of else branches"""
    try:
        par = s.parent()
        inner = s._impl._node
        outer = par._impl._node
        ik = "if" if isinstance(inner, LoopIR.If) else "for"
        ok = "if" if isinstance(outer, LoopIR.If) else "for" if isinstance(outer, LoopIR.For) else "proc"
        d = f"{ik}-in-{ok}"
        if ik == "if":
            d += ":inner-else" if inner.orelse else ":inner-noelse"
        if ok == "if":
            d += ":outer-else" if outer.orelse else ":outer-noelse"
            d += ":in-orelse" if any(x is inner for x in outer.orelse) else ":in-body"
        return d
    except Exception:
        return "?"


def _cfg_fields(cfg):
    return [f[0] for f in cfg.fields()] if callable(getattr(cfg, "fields", None)) else []


def _cfg_rhs(p, cfg, fld):
    t = cfg.lookup_type(fld)
    out = []
    if t.is_real_scalar():
        out.append("1.0")
        for a in p.INTERNAL_proc().args:
            if a.type.is_real_scalar():
                out.append(str(a.name))
                break
    elif t == T.bool:
        out += ["True"]
    elif t.is_indexable():
        out += ["0", "3"]
    return out


def _conds_for(p, s):
    names = [str(a.name) for a in p.INTERNAL_proc().args if a.type.is_indexable()]
    out = []
    for n in names[:2]:
        out += [f"{n} == 1", f"{n} < 3"]
    return out[:3]


def _windows_for(s):
    """window strings for single statements: point windows of every access"""
    out = []
    seen = set()

    def acc(name, idx):
        if not idx:
            return
        w = f"{name}[{', '.join(f'{i}:{i} + 1' for i in idx)}]"
        if w not in seen:
            seen.add(w)
            out.append(w)

    n = s._impl._node
    acc(str(n.name), [str(i) for i in n.idx])

    def ex(e):
        if isinstance(e, LoopIR.Read):
            if e.idx and e.type.is_real_scalar():
                acc(str(e.name), [str(i) for i in e.idx])
        elif isinstance(e, LoopIR.BinOp):
            ex(e.lhs)
            ex(e.rhs)
        elif isinstance(e, LoopIR.USub):
            ex(e.arg)
        elif isinstance(e, LoopIR.Extern):
            for a in e.args:
                ex(a)

    ex(n.rhs)
    return out[:4]


def _loop_windows(p, loop):
    """window strings for a loop: the full extent of each accessed buffer, and row windows"""
    body = loop._impl._node
    bufs = {}

    def ex(e):
        if isinstance(e, LoopIR.Read):
            if e.idx and e.type.is_real_scalar():
                bufs.setdefault(str(e.name), e.name)
        elif isinstance(e, LoopIR.BinOp):
            ex(e.lhs)
            ex(e.rhs)
        elif isinstance(e, LoopIR.USub):
            ex(e.arg)
        elif isinstance(e, LoopIR.Extern):
            for a in e.args:
                ex(a)

    def st(ss):
        for s in ss:
            if isinstance(s, (LoopIR.Assign, LoopIR.Reduce)):
                if s.idx:
                    bufs.setdefault(str(s.name), s.name)
                ex(s.rhs)
            elif isinstance(s, LoopIR.For):
                st(s.body)
            elif isinstance(s, LoopIR.If):
                st(s.body)
                st(s.orelse)

    st([body])
    shapes = {}
    for a in p.INTERNAL_proc().args:
        if a.type.is_numeric() and a.type.shape():
            shapes[str(a.name)] = [str(x) for x in a.type.shape()]

    def allocs(ss):
        for s in ss:
            if isinstance(s, LoopIR.Alloc) and s.type.shape():
                shapes[str(s.name)] = [str(x) for x in s.type.shape()]
            elif isinstance(s, LoopIR.For):
                allocs(s.body)
            elif isinstance(s, LoopIR.If):
                allocs(s.body)
                allocs(s.orelse)

    allocs(p.INTERNAL_proc().body)
    out = []
    for nm in bufs:
        if nm in shapes:
            sh = shapes[nm]
            out.append(f"{nm}[{', '.join('0:' + x for x in sh)}]")
            if len(sh) >= 1:
                # deliberately too small: first half only
                out.append(f"{nm}[{', '.join('0:' + ('1' if k == 0 else x) for k, x in enumerate(sh))}]")
    return out[:4]


def _expand_args(p, alloc):
    """(size, index) pairs for expand_dim from the enclosing loops"""
    out = []
    c = alloc.parent()
    while isinstance(c, (C.ForCursor, C.IfCursor)):
        if isinstance(c, C.ForCursor):
            hi = _expr_str(c.hi())
            out.append((hi, c.name()))
            out.append((f"{hi} - 1", c.name()))  # too small: must be rejected
            out.append((f"{hi} + 1", f"{c.name()} + 1"))
        c = c.parent()
    out.append(("2", "1"))
    out.append(("2", "2"))  # out of range: must be rejected
    return out[:7]
