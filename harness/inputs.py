"""Bounded input domain of DESIGN 5.3: candidate inputs for a unit's entry procedure.

The harness only *enumerates candidates*; admissibility is decided by the spec
(ExoMachine!ValidInput).  The Python pre-filter below merely avoids spending the cap on
candidates the spec would discard.
"""
from __future__ import annotations

import itertools
import random

from exo.core.LoopIR import LoopIR, T

from .export import P


class CantEval(Exception):
    pass


def pyeval(e, env):
    if isinstance(e, LoopIR.Const):
        return e.val
    if isinstance(e, LoopIR.Read):
        if e.idx or e.name not in env:
            raise CantEval()
        return env[e.name]
    if isinstance(e, LoopIR.USub):
        return -pyeval(e.arg, env)
    if isinstance(e, LoopIR.BinOp):
        a, b = pyeval(e.lhs, env), pyeval(e.rhs, env)
        op = str(e.op)
        if op == "and":
            return bool(a and b)
        if op == "or":
            return bool(a or b)
        if op in ("/", "%") and b <= 0:
            raise CantEval()
        return {"+": lambda: a + b, "-": lambda: a - b, "*": lambda: a * b, "/": lambda: a // b,
                "%": lambda: a % b, "<": lambda: a < b, ">": lambda: a > b, "<=": lambda: a <= b,
                ">=": lambda: a >= b, "==": lambda: a == b}[op]()
    raise CantEval()


def int_literals(p: LoopIR.proc, acc=None, seen=None):
    """All integer literals occurring in index/size/bound positions of p and its callees."""
    acc = set() if acc is None else acc
    seen = set() if seen is None else seen
    if id(p) in seen:
        return acc
    seen.add(id(p))

    def ex(e):
        if isinstance(e, LoopIR.Const):
            if isinstance(e.val, int) and not isinstance(e.val, bool):
                acc.add(e.val)
        elif isinstance(e, LoopIR.Read):
            for i in e.idx:
                ex(i)
        elif isinstance(e, LoopIR.USub):
            ex(e.arg)
        elif isinstance(e, LoopIR.BinOp):
            ex(e.lhs)
            ex(e.rhs)
        elif isinstance(e, LoopIR.Extern):
            for a in e.args:
                ex(a)
        elif isinstance(e, LoopIR.WindowExpr):
            for w in e.idx:
                if isinstance(w, LoopIR.Interval):
                    ex(w.lo)
                    ex(w.hi)
                else:
                    ex(w.pt)

    def st(ss):
        for s in ss:
            if isinstance(s, (LoopIR.Assign, LoopIR.Reduce)):
                for i in s.idx:
                    ex(i)
                ex(s.rhs)
            elif isinstance(s, LoopIR.WriteConfig):
                ex(s.rhs)
            elif isinstance(s, LoopIR.If):
                ex(s.cond)
                st(s.body)
                st(s.orelse)
            elif isinstance(s, LoopIR.For):
                ex(s.lo)
                ex(s.hi)
                st(s.body)
            elif isinstance(s, LoopIR.Alloc):
                for x in s.type.shape():
                    ex(x)
            elif isinstance(s, LoopIR.WindowStmt):
                ex(s.rhs)
            elif isinstance(s, LoopIR.Call):
                for a in s.args:
                    ex(a)
                int_literals(s.f, acc, seen)

    for a in p.args:
        if a.type.is_numeric():
            for x in a.type.shape():
                ex(x)
    for x in p.preds:
        ex(x)
    st(p.body)
    return acc


def _layout(sh, which):
    if which == "dense":
        st = [1] * len(sh)
        for d in range(len(sh) - 2, -1, -1):
            st[d] = st[d + 1] * sh[d + 1]
        return 0, st
    # offset 3, innermost stride 2, one cell of slack per outer dimension
    st = [2] * len(sh)
    for d in range(len(sh) - 2, -1, -1):
        st[d] = st[d + 1] * sh[d + 1] + 1
    return 3, st


def gen_inputs(p: LoopIR.proc, cfgtypes, mode, rng: random.Random, cap=48, procs_for_literals=(),
               idxs=(-1, 0, 1, 2), zrange=(1, 40), max_cells=4000, layouts=("dense", "strided"),
               fixed_ctl=None):
    """Candidate inputs (sides) for entry procedure p.

    Returns a list of {"ctl": [...], "bufs": [{cells, off, strides}], "cfg": [...]}."""
    lits = set()
    for q in (p, *procs_for_literals):
        lits |= int_literals(q)
    sizes = {1, 2, 3}
    for c in lits:
        if 1 <= c <= 9:
            sizes |= {c - 1, c, c + 1}
    sizes = sorted(s for s in sizes if s >= 1)
    ctl_args = [a for a in p.args if not a.type.is_numeric()]

    def dom(a, szs):
        if fixed_ctl and str(a.name) in fixed_ctl:
            return (fixed_ctl[str(a.name)],)
        if a.type == T.size:
            return tuple(szs)
        if a.type == T.bool:
            return (False, True)
        if a.type == T.stride:
            return (1, 2)
        return tuple(idxs)

    def candidates(szs):
        doms = [dom(a, szs) for a in ctl_args]
        total = 1
        for d in doms:
            total *= len(d)
        if total <= 20000:
            allv = list(itertools.product(*doms))
            rng.shuffle(allv)
            # deterministic stratification: small sizes first within the shuffled order
            return allv
        return [tuple(rng.choice(d) for d in doms) for _ in range(20000)]

    def admissible(vals):
        env = {a.name: v for a, v in zip(ctl_args, vals)}
        for pr in p.preds:
            try:
                if not pyeval(pr, env):
                    return None
            except CantEval:
                pass
        return env

    envs = []
    for szs in (sizes, list(range(1, 33))):
        for vals in candidates(szs):
            env = admissible(vals)
            if env is not None:
                envs.append(env)
            if len(envs) >= cap * 3:
                break
        if envs:
            break
    # prefer small total size, but keep variety: sort by (sum of sizes) within chunks
    envs.sort(key=lambda en: sum(v for a, v in zip(ctl_args, [en[a.name] for a in ctl_args])
                                 if a.type == T.size))
    has_win = any(a.type.is_numeric() and a.type.is_win() for a in p.args)
    out = []

    def val():
        return rng.randrange(1, P) if mode == "F" else rng.randrange(zrange[0], zrange[1])

    # interleave: walk envs round-robin from small to large so the cap keeps both ends
    order = []
    lo, hi = 0, len(envs) - 1
    while lo <= hi:
        order.append(envs[lo])
        lo += 1
        if lo <= hi and len(order) % 3 == 0:
            order.append(envs[hi])
            hi -= 1
    for env in order:
        for layout in (layouts if has_win else ("dense",)):
            ctl, bufs, ok = [], [], True
            for a in p.args:
                if not a.type.is_numeric():
                    ctl.append(env[a.name])
                    bufs.append({"cells": [], "off": 0, "strides": []})
                    continue
                ctl.append(0)
                try:
                    sh = [pyeval(x, env) for x in a.type.shape()]
                except CantEval:
                    ok = False
                    break
                if any(s < 1 for s in sh):
                    ok = False
                    break
                if a.type.is_win():
                    off, st = _layout(sh, layout)
                    n = off + sum((s - 1) * t for s, t in zip(sh, st)) + 1 + 2
                    bufs.append({"cells": [val() for _ in range(n)], "off": off, "strides": st})
                else:
                    n = 1
                    for s in sh:
                        n *= s
                    bufs.append({"cells": [val() for _ in range(n)], "off": 0, "strides": []})
                if n > max_cells:
                    ok = False
                    break
            if not ok:
                continue
            cfg = []
            for typ in cfgtypes:
                if typ == T.bool:
                    cfg.append(rng.random() < 0.5)
                elif typ.is_indexable() or typ == T.stride:
                    cfg.append(rng.choice((0, 1, 3)))
                else:
                    cfg.append(val())
            out.append({"ctl": ctl, "bufs": bufs, "cfg": cfg})
            if len(out) >= cap:
                return out
    return out
