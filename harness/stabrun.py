"""C07 stability run (one fresh interpreter per corpus module; used by purity.run_module_stability).

The outcome (printed result / kind of error) of a call on an existing procedure must not depend on which other
operations ran before it in the process.  For a sample of calls on every procedure of the module this program
observes (a) the outcome in a forked child of a parent that has analysed nothing (one child per call), and (b) the
outcomes in one child that first tries analysis-heavy candidates on every procedure of the module (most are refused)
and then makes all the calls.  Prints one JSON object; the session built from it is validated by spec/SessionTrace.tla
(the isolated outcomes are the initial store, the second observation must leave every handle unchanged)."""
from __future__ import annotations

import hashlib
import importlib
import json
import os
import random
import signal
import sys


class _Timeout(BaseException):
    pass


def _alarm(signum, frame):
    raise _Timeout()


def _safe_str(p):
    try:
        return str(p)
    except Exception as e:
        return f"<unprintable: {type(e).__name__}>"


def outcome(c):
    signal.alarm(40)
    try:
        q = c.fn()
        signal.alarm(0)
        return "none" if q is None else "ok:" + hashlib.sha1(_safe_str(q).encode()).hexdigest()[:12]
    except _Timeout:
        return "T"
    except BaseException as e:
        signal.alarm(0)
        return "E:" + type(e).__name__


def in_child(fn):
    r, w = os.pipe()
    pid = os.fork()
    if pid == 0:
        os.close(r)
        try:
            out = json.dumps(fn())
        except BaseException as e:  # noqa
            out = json.dumps({"child_error": type(e).__name__})
        with os.fdopen(w, "w") as f:
            f.write(out)
        os._exit(0)
    os.close(w)
    with os.fdopen(r) as f:
        data = f.read()
    os.waitpid(pid, 0)
    try:
        return json.loads(data)
    except Exception:
        return {"child_error": "no output"}


PREFER = ("eliminate_dead_code", "reorder_stmts", "fission", "delete_config", "write_config", "bind_config", "fuse",
          "lift_scope", "parallelize_loop", "simplify", "call_eqv", "merge_writes", "remove_loop", "inline", "stage_mem")


def main():
    module, seed, per_proc = sys.argv[1], sys.argv[2], int(sys.argv[3])
    signal.signal(signal.SIGALRM, _alarm)
    from harness.gen_schedules import enumerate_candidates
    from harness.edges import corpus_ctx
    mod = importlib.import_module(module)
    ctx = corpus_ctx(mod)
    rng = random.Random(f"stabrun/{seed}/{module}")
    picks, between = [], []
    for p in mod.PROCS[:80]:
        try:
            cands = [c for c in enumerate_candidates(p, ctx, rich=True) if c.op != "extract_subproc"]
        except BaseException:
            continue
        pref = [c for c in cands if c.op in PREFER]
        rng.shuffle(pref)
        byop = {}
        for c in pref:
            byop.setdefault(c.op, c)
        mine = [byop[o] for o in PREFER if o in byop][:per_proc]
        picks += [(p.name(), c) for c in mine]
        rest = [c for c in pref if c not in mine]
        between += rest[:3]
    isolated = [in_child(lambda c=c: outcome(c)) for _, c in picks]

    def polluted():
        for c in between:
            outcome(c)
        # every sampled call once (they are operations, too), then every sampled call again
        for _, c in picks:
            outcome(c)
        return [outcome(c) for _, c in picks]
    after = in_child(polluted)
    print(json.dumps({"module": module, "calls": [f"{n}: {c.op}({c.args})" for n, c in picks], "isolated": isolated,
                      "after": after, "between": len(between)}))


if __name__ == "__main__":
    main()
