from __future__ import annotations

from .common import NCPU


def _job(job, emit):
    from .replay_annot import replay
    for k, asg in job["items"]:
        emit("begin", k)
        o = replay(asg, job["workdir"], k)
        o["k"] = k
        emit("rec", o)


def run(assignments, workdir, chunk=40):
    from .pool import stream_pool
    from .common import MachineryError
    items = list(enumerate(assignments))
    jobs = [{"items": items[i:i + chunk], "workdir": workdir} for i in range(0, len(items), chunk)]
    recs, crashes, hangs = stream_pool(jobs, _job, NCPU, silence=300, maxjobs=50)
    if crashes:
        raise MachineryError("annot worker crashed:\n" + crashes[0][1])
    return {r["k"]: r for r in recs}
