"""Code -> spec traces for spec/CursorEdit.tla (validated by spec/CursorEditTrace.tla).

Wrappers around the elementary edits of exo.core.internal_cursors (Block._replace / _delete / _wrap /
_move, Gap._insert) record, for every edit a real scheduling primitive performs:
  tree   the statement tree before the edit (kinds for/if/s, preorder labels 1..n),
  edit   the edit in the vocabulary of the spec (block / gap coordinates, inserted forest, wrapper),
  ntree  the statement tree the code produced (label = label of the identical old node object, else 0),
  fw     the images of a sample of node / gap / block cursors under the forwarding function the code
         returned.
TLC then takes the spec's own step from `tree` with `edit` and requires (a) its tree to agree with the
code's, (b) its forwarding of every sampled cursor to equal the code's, (c) FwdSound of the step on
this (real-sized) tree.  No repository source is edited: the wrappers are installed by the harness."""
from __future__ import annotations

import hashlib
import json
import random

_ST = {"depth": 0, "recs": [], "seen": set(), "on": False, "cap": 400, "ctx": "", "dropped": 0, "calls": 0}


def _kind(n):
    from exo.core.LoopIR import LoopIR
    if isinstance(n, LoopIR.For):
        return "for"
    if isinstance(n, LoopIR.If):
        return "if"
    return "s"


def _label_tree(root):
    """-> (tree record, {id(node): label}) with preorder labels 1..n"""
    from exo.core.LoopIR import LoopIR
    ids = {}
    ctr = [0]

    def t(n):
        ctr[0] += 1
        lab = ctr[0]
        ids[id(n)] = lab
        k = _kind(n)
        body = [t(c) for c in n.body] if k in ("for", "if") else []
        orelse = [t(c) for c in n.orelse] if k == "if" else []
        return {"lab": lab, "kind": k, "body": body, "orelse": orelse}

    tree = {"lab": 0, "kind": "proc", "body": [t(c) for c in root.body], "orelse": []}
    # a node object that occurs more than once in the old tree (rewrites that duplicate a statement by reference,
    # e.g. lift_scope copying an else branch) has no identity to follow: it is not used as a label
    seen, dup = set(), set()

    def count(n):
        (dup if id(n) in seen else seen).add(id(n))
        if _kind(n) in ("for", "if"):
            for c in n.body:
                count(c)
        if _kind(n) == "if":
            for c in n.orelse:
                count(c)
    for c in root.body:
        count(c)
    for k in dup:
        ids.pop(k, None)
    return tree, ids, ctr[0]


def _shape_new(root, ids):
    def t(n):
        k = _kind(n)
        return {"lab": ids.get(id(n), 0), "kind": k,
                "body": [t(c) for c in n.body] if k in ("for", "if") else [],
                "orelse": [t(c) for c in n.orelse] if k == "if" else []}
    return {"lab": 0, "kind": "proc", "body": [t(c) for c in root.body], "orelse": []}


def _forest(nodes, ids, nxt, keep):
    """inserted statements get fresh labels > n, as in the exhaustive model (a replacement is new code even if the
    rewrite happens to reuse a node object from elsewhere); only node objects taken from the replaced block itself
    (`keep`: ids of the nodes below the replaced range) keep their label - they are carried over by the edit"""
    def t(n):
        lab = ids.get(id(n)) if id(n) in keep else None
        if lab is None:
            nxt[0] += 1
            lab = nxt[0]
        k = _kind(n)
        return {"lab": lab, "kind": k,
                "body": [t(c) for c in n.body] if k in ("for", "if") else [],
                "orelse": [t(c) for c in n.orelse] if k == "if" else []}
    return [t(n) for n in nodes]


def _stmt_path(path):
    return all(a in ("body", "orelse") and i is not None for a, i in path)


def _all_cursors(tree):
    """spec cursor records of a tree record: nodes, gaps, valid blocks"""
    out = []

    def lists(t, p):
        for a in ("body", "orelse"):
            ch = t[a]
            n = len(ch)
            for lo in range(n):
                for hi in range(lo + 1, n + 1):
                    out.append({"t": "b", "p": p, "a": a, "lo": lo, "hi": hi})
            for i, c in enumerate(ch):
                q = p + [[a, i]]
                out.append({"t": "n", "p": q})
                out.append({"t": "g", "p": q, "side": "before"})
                out.append({"t": "g", "p": q, "side": "after"})
                lists(c, q)
    lists(tree, [])
    return out


def _record(kind, blk, gap, nodes, extra, old_root, new_root, fwd):
    from exo.core import internal_cursors as ic
    from .replay_cursor import cursor, project
    _ST["calls"] += 1
    if len(_ST["recs"]) >= _ST["cap"]:
        _ST["dropped"] += 1
        return
    tree, ids, n = _label_tree(old_root)
    e = {"k": kind}
    if blk is not None:
        e["b"] = {"t": "b", "p": [list(x) for x in blk._anchor._path], "a": blk._attr,
                  "lo": blk._range.start, "hi": blk._range.stop}
        if not _stmt_path(blk._anchor._path) or blk._attr not in ("body", "orelse"):
            return
    if gap is not None:
        e["g"] = {"t": "g", "p": [list(x) for x in gap._anchor._path],
                  "side": "before" if gap._type == ic.GapType.Before else "after"}
        if not _stmt_path(gap._anchor._path):
            return
    keep = set()
    if blk is not None and nodes is not None:
        stack = list(getattr(blk._anchor._node, blk._attr)[blk._range.start:blk._range.stop])
        while stack:
            x = stack.pop()
            keep.add(id(x))
            if _kind(x) in ("for", "if"):
                stack.extend(x.body)
            if _kind(x) == "if":
                stack.extend(x.orelse)
    e["ns"] = _forest(nodes, ids, [n], keep) if nodes is not None else []
    e["n"] = len(e["ns"])
    e.update(extra)
    key = hashlib.sha1(json.dumps([tree, e], sort_keys=True).encode()).hexdigest()
    if key in _ST["seen"]:
        return
    _ST["seen"].add(key)
    curs = _all_cursors(tree)
    if len(curs) > 160:
        curs = random.Random(key).sample(curs, 160)
    fw = []
    for c in curs:
        try:
            img = project(fwd(cursor(old_root, c)))
        except ic.InvalidCursorError:
            img = {"t": "x"}
        except AssertionError:
            img = {"t": "x"}  # _forward_move asserts where the spec says Invalid
        except Exception as x:
            img = {"t": "!", "exc": f"{type(x).__name__}: {str(x)[:80]}"}
        fw.append({"c": c, "r": img})
    if nodes is not None:
        # node objects inserted from elsewhere are fresh statements to the spec: do not pin them to their old label
        ids = dict(ids)
        stack = [x for x in nodes]
        while stack:
            x = stack.pop()
            if id(x) not in keep:
                ids.pop(id(x), None)
            if _kind(x) in ("for", "if"):
                stack.extend(x.body)
            if _kind(x) == "if":
                stack.extend(x.orelse)
    _ST["recs"].append({"ctx": _ST["ctx"], "tree": tree, "edit": e, "ntree": _shape_new(new_root, ids), "fw": fw,
                        "nodes": n})


def install():
    from exo.core import internal_cursors as ic
    if getattr(ic, "_edittrace_installed", False):
        return
    ic._edittrace_installed = True
    o_replace, o_insert, o_wrap, o_move = ic.Block._replace, ic.Gap._insert, ic.Block._wrap, ic.Block._move

    def guarded(fn_record, call):
        if not _ST["on"] or _ST["depth"] > 0:
            return call()
        _ST["depth"] += 1
        try:
            res = call()
        finally:
            _ST["depth"] -= 1
        try:
            fn_record(res)
        except Exception as x:  # the recorder must never disturb the operation
            _ST.setdefault("errors", []).append(f"{type(x).__name__}: {str(x)[:120]}")
        return res

    def replace(self, nodes, *, empty_default=None):
        def rec(res):
            if nodes == [] and empty_default is not None:
                _record("delete", self, None, None, {}, self._root, res[0], res[1])
            elif empty_default is None:
                _record("replace", self, None, nodes, {}, self._root, res[0], res[1])
        return guarded(rec, lambda: o_replace(self, nodes, empty_default=empty_default))

    def insert(self, stmts):
        return guarded(lambda res: _record("insert", None, self, stmts, {}, self._root, res[0], res[1]),
                       lambda: o_insert(self, stmts))

    def wrap(self, ctor, wrap_attr):
        def rec(res):
            new_node = ic.Node(res[0], self._anchor._path + [(self._attr, self._range.start)])._node
            other = []
            if _kind(new_node) == "if":
                other = [{"lab": 0, "kind": _kind(c), "body": [], "orelse": []}
                         for c in (new_node.orelse if wrap_attr == "body" else new_node.body)]
            _record("wrap", self, None, None, {"wkind": _kind(new_node), "wattr": wrap_attr, "wother": other},
                    self._root, res[0], res[1])
        return guarded(rec, lambda: o_wrap(self, ctor, wrap_attr))

    def move(self, target):
        # (Block._move itself retargets a gap that lies inside the moved block to block.before())
        tgt = self.before() if target in self else target
        return guarded(lambda res: _record("move", self, tgt, None, {}, self._root, res[0], res[1]),
                       lambda: o_move(self, target))

    o_nreplace = ic.Node._replace

    def nreplace(self, ast):
        # a single statement replaced by a single node (not through Block._replace): recorded as the replacement of
        # the one-statement block, so that what the returned forwarding function does to the siblings is judged
        attr, idx = self._path[-1] if self._path else (None, None)
        if isinstance(ast, list) or idx is None or attr not in ("body", "orelse") or not _stmt_path(self._path):
            return o_nreplace(self, ast)
        blk = self.as_block()
        return guarded(lambda res: _record("replace", blk, None, [ast], {"single": True}, self._root, res[0], res[1]),
                       lambda: o_nreplace(self, ast))

    ic.Node._replace = nreplace
    ic.Block._replace = replace
    ic.Gap._insert = insert
    ic.Block._wrap = wrap
    ic.Block._move = move


def start(ctx="", cap=400):
    install()
    _ST.update({"on": True, "cap": cap, "ctx": ctx})


def set_ctx(ctx):
    _ST["ctx"] = ctx


def drain():
    recs = _ST["recs"]
    _ST["recs"] = []
    return recs


def stats():
    return {"edit_calls": _ST["calls"], "dropped_over_cap": _ST["dropped"], "recorder_errors": _ST.get("errors", [])[:5]}
