"""C14: wrapper procedures around every @instr of exo.platforms.x86.  A wrapper places DRAM operands
inside larger arrays at an offset, moves register operands in and out with the library's own
load/store instructions, and calls the instruction once.  The compiled C (real intrinsics) is executed
and validated by spec/ExoMachine.tla running the *Exo bodies* of all instructions (ExoCTrace)."""
from __future__ import annotations

import itertools
import random
import signal

from .common import NCPU

LOADSTORE = {
    ("AVX2", "f32"): ("mm256_loadu_ps", "mm256_storeu_ps"),
    ("AVX2", "f64"): ("mm256_loadu_pd", "mm256_storeu_pd"),
    ("AVX2", "ui16"): ("mm256_loadu_si256", "mm256_storeu_si256"),
    ("AVX512", "f32"): ("mm512_loadu_ps", "mm512_storeu_ps"),
}
PREC = {"F32": "f32", "F64": "f64", "UINT16": "ui16", "INT8": "i8", "INT32": "i32", "UINT8": "ui8", "Num": "f32"}
OFF = 1  # DRAM operands start at this offset inside their backing array


class Skip(Exception):
    pass


def all_instrs():
    import exo.platforms.x86 as x86
    from exo.API import Procedure
    out = []
    for nm in sorted(dir(x86)):
        p = getattr(x86, nm)
        if isinstance(p, Procedure) and p.INTERNAL_proc().instr is not None:
            out.append((nm, p))
    return out


def wrapper_source(name, p, strided=None):
    """Exo source text of the wrapper around instruction p.  strided = k: the k-th 1-D DRAM operand is a column
    of a 2-D backing array (stride 3) instead of a dense slice - accepted by exo only if the instruction's
    assertions permit a non-unit stride there."""
    from exo.core.LoopIR import LoopIR, T
    ir = p.INTERNAL_proc()
    sig, pre, call, post, allocs = [], [], [], [], []
    preds = []
    ctl_names = {str(a.name) for a in ir.args if not a.type.is_numeric()}

    def only_ctl(e):
        from .rangeclaims import ex, CantExport
        names = {}
        try:
            ex(e, names)
        except CantExport:
            # comparisons / boolean structure: walk manually
            pass
        ok = True

        def walk(x):
            nonlocal ok
            if isinstance(x, LoopIR.Read):
                if str(x.name) not in ctl_names or x.idx:
                    ok = False
            elif isinstance(x, LoopIR.BinOp):
                walk(x.lhs)
                walk(x.rhs)
            elif isinstance(x, LoopIR.USub):
                walk(x.arg)
            elif isinstance(x, LoopIR.Const):
                pass
            else:
                ok = False
        walk(e)
        return ok

    for pr in ir.preds:
        if only_ctl(pr):
            preds.append(str(pr))
    n_dram = [0]
    for a in ir.args:
        n = str(a.name)
        if not a.type.is_numeric():
            kind = "size" if a.type == T.size else "bool" if a.type == T.bool else "index"
            sig.append(f"{n}: {kind}")
            call.append(n)
            continue
        # operand buffers get names that cannot collide with locals declared inside instruction macros
        n = "q_" + n
        prec = PREC[type(a.type.basetype()).__name__]
        shape = [str(x) for x in a.type.shape()]
        mem = a.mem.name() if a.mem else "DRAM"
        if not shape:
            sig.append(f"{n}: {prec}")
            call.append(n)
            continue
        if mem == "DRAM" and len(shape) == 1 and strided is not None and n_dram[0] == strided:
            n_dram[0] += 1
            sig.append(f"{n}: {prec}[{shape[0]} + {OFF + 2}, 3]")
            call.append(f"{n}[{OFF}:{OFF} + {shape[0]}, 1]")
        elif mem == "DRAM":
            if len(shape) == 1:
                n_dram[0] += 1
            ext = [f"{s} + {OFF + 2}" for s in shape]
            sig.append(f"{n}: {prec}[{', '.join(ext)}]")
            call.append(f"{n}[{', '.join(f'{OFF}:{OFF} + {s}' for s in shape)}]")
        elif (mem, prec) in LOADSTORE and len(shape) == 1:
            ld, st = LOADSTORE[(mem, prec)]
            L = shape[0]
            sig.append(f"{n}: {prec}[{L}]")
            allocs.append(f"{n}_r: {prec}[{L}] @ {mem}")
            pre.append(f"{ld}({n}_r, {n}[0:{L}])")
            post.append(f"{st}({n}[0:{L}], {n}_r)")
            call.append(f"{n}_r")
        else:
            raise Skip(f"no load/store for {mem}/{prec}/{shape}")
    body = allocs + pre + [f"{name}({', '.join(call)})"] + post
    src = f"@proc\ndef w_{name}({', '.join(sig)}):\n"
    for pr in preds:
        src += f"    assert {pr}\n"
    for l in body:
        src += f"    {l}\n"
    return src


def _values(rng, name, argname, n, prec):
    if prec == "ui16":
        return [rng.randrange(0, 60) for _ in range(n)]
    if "divide_by_3" in name:
        return [3 * rng.randrange(0, 20) for _ in range(n)]
    if "div" in name:
        if argname == "q_y":
            return [rng.choice([1, 2, 4]) for _ in range(n)]
        return [4 * rng.randrange(-6, 9) for _ in range(n)]
    vals = list(range(-7, 12))
    rng.shuffle(vals)
    out = []
    while len(out) < n:
        out += vals
    return out[:n]


class _Timeout(Exception):
    pass


def _alarm(signum, frame):
    raise _Timeout()


def _job(job, emit):
    signal.signal(signal.SIGALRM, _alarm)
    from .corpus.genmod import load_generated
    from .export import make_unit, ExportError
    from .inputs import pyeval, CantEval
    from .cdrv import run_c, attach_outputs, cfg_fields_of
    from exo.core.LoopIR import T

    instrs = dict(all_instrs())
    work = []
    for name in job["names"]:
        ir_ = instrs[name].INTERNAL_proc()
        nd = sum(1 for a in ir_.args if a.type.is_numeric() and len(a.type.shape()) == 1
                 and (a.mem.name() if a.mem else "DRAM") == "DRAM")
        work += [(name, None)] + [(name, k) for k in range(nd)]
    for name, variant in work:
        emit("begin", f"{name}/{variant}")
        p = instrs[name]
        rec = {"instr": name, "variant": variant}
        try:
            src = ("from __future__ import annotations\nfrom exo import proc\nfrom exo.libs.memories import *\n"
                   "from exo.platforms.x86 import *\n\n" + wrapper_source(name, p, strided=variant))
            rec["wrapper"] = src
            signal.alarm(120)
            mod = load_generated(f"exoverif_instr_{name}_{variant}", src)
            w = getattr(mod, f"w_{name}")
            wa = w.INTERNAL_proc()
            unit, ex = make_unit(f"x86.{name}/{variant}", wa, None, mode="Z")
            rng = random.Random(f"c14/{job['seed']}/{name}/{variant}")
            # control arguments: every admissible value of a small grid
            ctl = [a for a in wa.args if not a.type.is_numeric()]
            doms = []
            for a in ctl:
                doms.append(list(range(1, 33)) if a.type == T.size else [False, True] if a.type == T.bool else list(range(0, 8)))
            sides = []
            combos = list(itertools.product(*doms))
            rng.shuffle(combos)
            # sizes beyond one vector (17..32) only where the instruction's assertions admit them; the corners of the
            # size domain always come first so that the cap keeps them
            corner = [c for c in combos if all(v in (1, 8, 15, 16, 17, 24, 31, 32, False, True, 0, 7) for v in c)]
            combos = corner + [c for c in combos if c not in corner]
            for vals in combos[: job["max_ctl"] + len(corner)]:
                env = {a.name: v for a, v in zip(ctl, vals)}
                okp = True
                for pr in wa.preds:
                    try:
                        if not pyeval(pr, env):
                            okp = False
                    except CantEval:
                        pass
                if not okp:
                    continue
                # random fills, then boundary fills: all operands equal element-wise (ties of comparisons /
                # selects), all zero, and neighbouring values (operand k = base + (k % 3) - 1)
                n_num = sum(1 for a in wa.args if a.type.is_numeric())
                modes = ["rand"] * job["reps"] + ([] if "div" in name else
                                                  ["tie", "zero", "adj"] + [("tiepair", j) for j in range(n_num - 1)])
                base = list(range(-7, 12))
                rng.shuffle(base)
                for mode_ in modes:
                    nbuf = 0
                    side = {"ctl": [], "bufs": [], "cfg": []}
                    for a in wa.args:
                        if not a.type.is_numeric():
                            side["ctl"].append(env[a.name])
                            side["bufs"].append({"cells": [], "off": 0, "strides": []})
                        else:
                            side["ctl"].append(0)
                            sh = [pyeval(x, env) for x in a.type.shape()]
                            n = 1
                            for s in sh:
                                n *= s
                            prec = PREC[type(a.type.basetype()).__name__]
                            if mode_ == "rand":
                                cells = _values(rng, name, str(a.name), n, prec)
                            else:
                                seq = (base * (n // len(base) + 1))[:n]
                                if isinstance(mode_, tuple):  # operands j and j+1 tie, all others differ
                                    d = nbuf if nbuf <= mode_[1] else nbuf - 1
                                else:
                                    d = 0 if mode_ == "tie" else (nbuf % 3) - 1
                                cells = [0 if mode_ == "zero" else (abs(v + d) if prec == "ui16" else v + d) for v in seq]
                                nbuf += 1
                            side["bufs"].append({"cells": cells, "off": 0, "strides": []})
                    sides.append(side)
            unit["inputs"] = [{"a": s} for s in sides]
            flags = ["-mavx2", "-mfma"] + (["-mavx512f"] if job["avx512"] else [])
            outs, files = run_c(w, cfg_fields_of(ex), sides, job["workdir"], opt="-O1", sanitize=True,
                                extra_flags=flags, tag=f"i_{name}_{variant}")
            signal.alarm(0)
            attach_outputs(unit, cfg_fields_of(ex), outs)
            rec["status"] = "built"
            rec["unit"] = unit
            rec["events"] = [o["event"] for o in outs]
            rec["msgs"] = [o.get("msg", "")[-600:] for o in outs if o["event"] != "return"][:2]
            rec["c_instr"] = p.INTERNAL_proc().instr.c_instr
            rec["body"] = str(p)
        except Skip as e:
            rec["status"] = "skipped"
            rec["why"] = str(e)
        except _Timeout:
            rec["status"] = "timeout"
        except ExportError as e:
            signal.alarm(0)
            rec["status"] = "skipped"
            rec["why"] = f"export: {e}"
        except Exception as e:
            signal.alarm(0)
            # (a strided variant is expected to be rejected whenever the instruction asserts a unit stride)
            rec["status"] = "wrapper-rejected" if variant is None else "strided-rejected"
            rec["why"] = f"{type(e).__name__}: {str(e)[:400]}"
        emit("rec", rec)


def run(seed, workdir, max_ctl, reps, only=None):
    from .pool import stream_pool
    from .common import MachineryError
    names = [n for n, p in all_instrs() if not only or only in n]
    avx512 = "avx512f" in open("/proc/cpuinfo").read()
    if not avx512:
        names = [n for n in names if "512" not in n]
    jobs = [{"names": names[i:i + 3], "seed": seed, "workdir": workdir, "max_ctl": max_ctl, "reps": reps,
             "avx512": avx512} for i in range(0, len(names), 3)]
    recs, crashes, hangs = stream_pool(jobs, _job, NCPU, silence=400)
    if crashes:
        raise MachineryError("instr worker crashed:\n" + crashes[0][1])
    recs.sort(key=lambda r: (r["instr"], str(r.get("variant"))))
    return recs, avx512
