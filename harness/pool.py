"""Process pool with streaming results and hard hang protection.

Persistent workers run `target(job, emit)` for one job after another; they announce each item
with emit("begin", k) and deliver results with emit("rec", record).  If a worker stays silent
longer than `silence` seconds (an SMT call or rewrite that never returns, possibly swallowing
SIGALRM-raised exceptions), the parent kills it, records item k as hung, restarts the job after
that item and spawns a fresh worker."""
from __future__ import annotations

import multiprocessing as mp
import multiprocessing.connection as mpc
import os
import time
import traceback


def _child(target, jobconn, conn, maxjobs):
    try:
        def emit(kind, payload):
            conn.send((kind, payload))
        n = 0
        while True:
            job = jobconn.recv()
            if job is None:
                break
            n += 1
            last = n >= maxjobs
            try:
                target(job, emit)
                conn.send(("end_retire" if last else "end", None))
            except BaseException:
                conn.send(("crash_retire" if last else "crash", traceback.format_exc()))
            if last:
                break
    except BaseException:
        pass
    finally:
        try:
            conn.close()
        except Exception:
            pass
        os._exit(0)


class _Worker:
    def __init__(self, ctx, target, maxjobs):
        self.res, child_res = ctx.Pipe(duplex=False)
        child_job, self.jobs = ctx.Pipe(duplex=False)
        self.proc = ctx.Process(target=_child, args=(target, child_job, child_res, maxjobs), daemon=True)
        self.proc.start()
        child_res.close()
        child_job.close()
        self.job = None
        self.k = None
        self.last = time.time()

    def give(self, job):
        self.job = job
        self.k = None
        self.last = time.time()
        self.jobs.send(job)

    def stop(self, kill=False):
        try:
            if kill:
                self.proc.kill()
            else:
                self.jobs.send(None)
        except Exception:
            pass
        self.proc.join(timeout=5)
        if self.proc.is_alive():
            self.proc.kill()
            self.proc.join(timeout=5)
        for c in (self.res, self.jobs):
            try:
                c.close()
            except Exception:
                pass


def stream_pool(jobs, target, procs, silence=150, on_hang=None, maxjobs=12):
    """Returns (records, crashes, hangs).  on_hang(job, k) -> (record for the hung item, resumed job or None)."""
    ctx = mp.get_context("fork")
    pending = list(jobs)[::-1]
    workers = []
    records, crashes, hangs = [], [], []

    def busy():
        return [w for w in workers if w.job is not None]

    while pending or busy():
        # keep `procs` workers, feed idle ones
        while len(workers) < min(procs, len(pending) + len(busy())):
            workers.append(_Worker(ctx, target, maxjobs))
        for w in workers:
            if w.job is None and pending:
                w.give(pending.pop())
        act = busy()
        if not act:
            continue
        ready = mpc.wait([w.res for w in act], timeout=1.0)
        now = time.time()
        for w in act:
            if w.res not in ready:
                continue
            try:
                kind, payload = w.res.recv()
            except (EOFError, OSError):
                crashes.append((w.job, "worker died without a message"))
                w.stop(kill=True)
                workers.remove(w)
                continue
            w.last = now
            if kind == "begin":
                w.k = payload
            elif kind == "rec":
                records.append(payload)
            elif kind in ("end", "end_retire", "crash", "crash_retire"):
                if kind.startswith("crash"):
                    crashes.append((w.job, payload))
                w.job = None
                if kind.endswith("retire"):
                    w.stop()
                    workers.remove(w)
        for w in list(workers):
            if w.job is not None and now - w.last > silence:
                hangs.append((w.job, w.k))
                job, k = w.job, w.k
                w.stop(kill=True)
                workers.remove(w)
                if on_hang is not None:
                    rec, newjob = on_hang(job, k)
                    if rec is not None:
                        records.append(rec)
                    if newjob is not None:
                        pending.append(newjob)
    for w in workers:
        w.stop()
    return records, crashes, hangs
