"""C13: claims of the real range analysis, collected (a) by wrappers while the real compiler /
simplify / fold-buffer / normalisation run on the corpus, (b) from the user-level infer_range /
bounds_inference on every index expression cursor, (c) from a generator of expressions x
environments with half-open / unknown ends.  Validated by spec/IndexExpr.tla."""
from __future__ import annotations

import importlib
import random
import signal
import sys

from .common import NCPU


class _Timeout(Exception):
    pass


def _alarm(signum, frame):
    raise _Timeout()


class CantExport(Exception):
    pass


def ex(e, names):
    from exo.core.LoopIR import LoopIR
    if isinstance(e, LoopIR.Const):
        if isinstance(e.val, bool) or not isinstance(e.val, int):
            raise CantExport()
        return {"k": "c", "v": e.val}
    if isinstance(e, LoopIR.Read):
        if e.idx:
            raise CantExport()
        names.setdefault(repr(e.name), e.name)
        return {"k": "v", "n": repr(e.name)}
    if isinstance(e, LoopIR.USub):
        return {"k": "neg", "a": ex(e.arg, names)}
    if isinstance(e, LoopIR.BinOp):
        if str(e.op) not in "+-*/%":
            raise CantExport()
        r = ex(e.rhs, names)
        if str(e.op) in "/%" and not (r["k"] == "c" and r["v"] > 0):
            raise CantExport()
        return {"k": "bin", "op": str(e.op), "l": ex(e.lhs, names), "r": r}
    raise CantExport()


def make_claim(expr, env, result, src):
    """expr: LoopIR.expr; env: mapping Sym -> (lo, hi); result: IndexRange | int"""
    from exo.rewrite.range_analysis import IndexRange
    names = {}
    je = ex(expr, names)
    if isinstance(result, int):
        result = IndexRange.create_int(result)
    jb = ex(result.base, names)
    envj = []
    for rn, sym in sorted(names.items()):
        lo = hi = None
        if sym in env:
            lo, hi = env[sym]
        envj.append({"n": rn, "haslo": lo is not None, "lo": lo or 0, "hashi": hi is not None, "hi": hi or 0})
    nv = len(envj)
    w = 7 if nv <= 2 else 5 if nv == 3 else 3 if nv == 4 else 2
    if nv > 5:
        raise CantExport()
    return {"kind": "range", "src": src, "text": str(expr), "e": je, "e2": je, "base": jb, "env": envj, "w": w,
            "haslo": result.lo is not None, "lo": result.lo or 0, "hashi": result.hi is not None, "hi": result.hi or 0}


def exb(e, names):
    """boolean structure of an assertion -> spec record (IndexExpr!EvalB)"""
    from exo.core.LoopIR import LoopIR
    if isinstance(e, LoopIR.Const) and isinstance(e.val, bool):
        return {"k": "cb", "v": e.val}
    if isinstance(e, LoopIR.BinOp):
        op = str(e.op)
        if op in ("and", "or"):
            return {"k": op, "l": exb(e.lhs, names), "r": exb(e.rhs, names)}
        if op in ("<", ">", "<=", ">=", "=="):
            return {"k": "cmp", "op": op, "l": ex(e.lhs, names), "r": ex(e.rhs, names)}
    raise CantExport()


def arg_claims(ir, src):
    """claims of arg_range_analysis(ir, arg, fast=False) for every index/size argument of LoopIR.proc `ir`"""
    from exo.core.LoopIR import T
    from exo.rewrite.range_analysis import arg_range_analysis
    out = []
    ctl = [a for a in ir.args if a.type.is_indexable()]
    if not ctl or len(ctl) > 3:
        return out
    names = {}
    preds = []
    for pr in ir.preds:
        try:
            preds.append(exb(pr, names))
        except CantExport:
            return out  # an assertion outside the fragment: its admissible set is unknown to the oracle
    for a in ctl:
        names.setdefault(repr(a.name), a.name)
    if len(names) > 3:
        return out
    kinds = {repr(a.name): a.type for a in ir.args}
    envj = []
    for rn in sorted(names):
        size = kinds.get(rn) == T.size
        envj.append({"n": rn, "haslo": True, "lo": 1 if size else -6, "hashi": True, "hi": 18 if size else 18})
    for a in ctl:
        lo, hi = arg_range_analysis(ir, a, fast=False)
        out.append({"kind": "argrange", "src": src, "text": f"{ir.name}.{a.name} under {[str(p) for p in ir.preds]}",
                    "e": {"k": "v", "n": repr(a.name)}, "e2": {"k": "v", "n": repr(a.name)}, "base": {"k": "c", "v": 0},
                    "preds": preds, "env": envj, "w": 12,
                    "haslo": lo is not None, "lo": lo or 0, "hashi": hi is not None, "hi": hi or 0})
    return out


def install_recorder(log, tag):
    """wrap exo.rewrite.range_analysis.index_range_analysis everywhere it is bound"""
    import exo.rewrite.range_analysis as ra
    orig = ra.index_range_analysis

    def wrapped(expr, env={}):
        r = orig(expr, env)
        try:
            log.append(make_claim(expr, dict(env), r, tag[0]))
        except CantExport:
            pass
        except Exception:
            pass
        return r

    patched = []
    for mname, m in list(sys.modules.items()):
        if m is None or not mname.startswith("exo"):
            continue
        for attr, val in list(vars(m).items()):
            if val is orig:
                setattr(m, attr, wrapped)
                patched.append((m, attr))

    def restore():
        for m, attr in patched:
            setattr(m, attr, orig)
    return restore


def _job(job, emit):
    signal.signal(signal.SIGALRM, _alarm)
    import exo.stdlib.scheduling as S
    import exo.API_cursors as C
    from exo.API import compile_procs_to_strings
    from .gen_schedules import enumerate_candidates, walk_stmts, stmt_exprs
    from .edges import corpus_ctx

    mod = importlib.import_module(job["module"])
    p = mod.PROCS[job["index"]]
    prog = f"{job['module'].split('.')[-1]}.{p.name()}"
    rng = random.Random(f"{job['seed']}/{prog}/claims")
    log = []
    tag = ["?"]
    restore = install_recorder(log, tag)
    try:
        emit("begin", 0)

        def guarded(name, thunk):
            tag[0] = name
            signal.alarm(40)
            try:
                return thunk()
            except BaseException:
                return None
            finally:
                signal.alarm(0)

        # (d) ranges of arguments derived from assertions: narrowed variants first (add_assertion / partial_eval keep the
        #     argument symbols), then the procedure itself - a result must depend on this procedure's assertions only;
        #     done before anything else has analysed this procedure in this process
        pa = p.INTERNAL_proc()
        variants = []
        for a in pa.args:
            if a.type.is_indexable():
                lits = {2, 5}
                for pr_ in pa.preds:
                    for tok in __import__("re").findall(r"-?\d+", str(pr_)):
                        lits |= {int(tok) - 1, int(tok) + 1}
                for pred in [f"{a.name} <= {c}" for c in sorted(lits) if c >= 1][:6] + [f"{a.name} >= 3"]:
                    q = guarded("add_assertion", lambda pred=pred: p.add_assertion(pred))
                    if q is not None:
                        variants.append(q)
        for q in variants + [p]:
            cl = guarded("arg_range", lambda q=q: arg_claims(q.INTERNAL_proc(), "arg_range_analysis"))
            log[0:0] = cl or []
        # (a) internal uses: compile, simplify, normalisation through divide/cut/shift + simplify, folding
        guarded("compile", lambda: compile_procs_to_strings([p], "c13.h"))
        guarded("simplify", lambda: S.simplify(p))
        cands = enumerate_candidates(p, corpus_ctx(mod),
                                     ops=["divide_loop", "cut_loop", "shift_loop", "resize_dim", "stage_mem",
                                          "mult_loops", "divide_dim", "expand_dim", "divide_with_recompute"], rich=True)
        rng.shuffle(cands)
        for c in cands[: job["cands"]]:
            q = guarded(c.op, c.fn)
            if q is not None:
                q2 = guarded(c.op + "+simplify", lambda q=q: S.simplify(q))
                guarded(c.op + "+compile", lambda q=q: compile_procs_to_strings([q2 or q], "c13.h"))
        restore()
        restore = lambda: None
        # (b) user-level: infer_range on every index expression, for every enclosing scope
        from exo.stdlib.range_analysis import infer_range, bounds_inference
        from exo.core.LoopIR import LoopIR
        n_user = 0
        for s, depth, path in walk_stmts(p.body()):
            idxs = []
            if isinstance(s, (C.AssignCursor, C.ReduceCursor)):
                idxs += list(s.idx())
                stack = [s.rhs()]
                while stack:
                    e = stack.pop()
                    if isinstance(e, C.ReadCursor):
                        idxs += list(e.idx())
                    elif isinstance(e, C.BinaryOpCursor):
                        stack += [e.lhs(), e.rhs()]
                    elif isinstance(e, C.UnaryMinusCursor):
                        stack.append(e.arg())
                    elif isinstance(e, C.ExternFunctionCursor):
                        stack += list(e.args())
            scopes = []
            c = s.parent()
            while isinstance(c, (C.ForCursor, C.IfCursor)):
                scopes.append(c)
                c = c.parent()
            for ie in idxs:
                for sc in scopes:
                    try:
                        signal.alarm(20)
                        r = infer_range(ie, sc)
                        signal.alarm(0)
                    except BaseException:
                        signal.alarm(0)
                        continue
                    # the environment infer_range used: loop iterators strictly inside `sc`
                    env = {}
                    from exo.rewrite.range_analysis import constant_bound as cb
                    inner = []
                    c2 = ie.parent()
                    while not isinstance(c2, C.InvalidCursor) and c2._impl._path != sc._impl._path:
                        if isinstance(c2, C.ForCursor):
                            inner.append(c2)
                        c2 = c2.parent()
                    try:
                        log.append(make_claim_user(ie._impl._node, inner, r, "infer_range"))
                        n_user += 1
                    except CantExport:
                        pass
        for rec in log[: job["maxclaims"]]:
            rec["prog"] = prog
        emit("rec", {"prog": prog, "claims": log[: job["maxclaims"]], "dropped": max(0, len(log) - job["maxclaims"])})
    finally:
        restore()


def make_claim_user(expr, inner_loops, result, src):
    """user-level claim: the stated environment is the *true* range of each enclosing loop iterator
    inside the scope (lo .. hi-1 when these are literals), everything else is free."""
    from exo.core.LoopIR import LoopIR
    env = {}
    for c in inner_loops:
        n = c._impl._node
        from .inputs import pyeval, CantEval

        def const_of(e):
            try:
                return pyeval(e, {})  # closed constant expressions only
            except CantEval:
                return None
        lo = const_of(n.lo)
        hi = const_of(n.hi)
        hi = hi - 1 if hi is not None else None
        if lo is not None and hi is not None and lo > hi:
            raise CantExport()  # the loop never runs: any claim is vacuous
        env[n.iter] = (lo, hi)
    return make_claim(expr, env, result, src)


def gen_claims(seed, n):
    """(c) generated expressions x environments through the real index_range_analysis"""
    from exo.core.LoopIR import LoopIR, T
    from exo.core.prelude import Sym, null_srcinfo
    from exo.rewrite.range_analysis import index_range_analysis
    si = null_srcinfo()
    rng = random.Random(f"c13gen/{seed}")
    syms = [Sym("i"), Sym("j"), Sym("n")]

    def Cn(v):
        return LoopIR.Const(v, T.int, si)

    def V(s):
        return LoopIR.Read(s, [], T.index, si)

    def B(op, l, r):
        return LoopIR.BinOp(op, l, r, T.index, si)

    def gen(d):
        if d == 0 or rng.random() < 0.25:
            return V(rng.choice(syms)) if rng.random() < 0.7 else Cn(rng.randrange(-3, 5))
        k = rng.random()
        if k < 0.3:
            return B("+", gen(d - 1), gen(d - 1))
        if k < 0.5:
            return B("-", gen(d - 1), gen(d - 1))
        if k < 0.65:
            c = Cn(rng.choice([-3, -2, -1, 0, 1, 2, 3, 4]))
            return B("*", c, gen(d - 1)) if rng.random() < 0.5 else B("*", gen(d - 1), c)
        if k < 0.8:
            return B("/", gen(d - 1), Cn(rng.choice([1, 2, 3, 4])))
        if k < 0.95:
            return B("%", gen(d - 1), Cn(rng.choice([1, 2, 3, 4])))
        return LoopIR.USub(gen(d - 1), T.index, si)

    out = []
    errs = 0
    for t in range(n):
        e = gen(3)
        env = {}
        for s in syms:
            if rng.random() < 0.2:
                continue
            lo = rng.randrange(-4, 4) if rng.random() < 0.85 else None
            hi = ((lo if lo is not None else rng.randrange(-4, 4)) + rng.randrange(0, 5)) if rng.random() < 0.85 else None
            env[s] = (lo, hi)
        try:
            r = index_range_analysis(e, env)
            out.append(make_claim(e, env, r, "generated"))
        except CantExport:
            pass
        except Exception:
            errs += 1
    return out, errs


def run(modules, seed, cands, maxclaims, select=None):
    from .pool import stream_pool
    from .common import MachineryError
    jobs = []
    for m in modules:
        mod = importlib.import_module(m)
        for idx, p in enumerate(mod.PROCS):
            if select is not None and not select(m, p):
                continue
            jobs.append({"module": m, "index": idx, "seed": seed, "cands": cands, "maxclaims": maxclaims})
    recs, crashes, hangs = stream_pool(jobs, _job, NCPU, silence=300)
    if crashes:
        raise MachineryError("C13 worker crashed:\n" + crashes[0][1])
    recs.sort(key=lambda r: r["prog"])
    return recs
