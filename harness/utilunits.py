"""C19: units with input/output relations for the signature- and annotation-changing utilities."""
from __future__ import annotations

import importlib
import itertools
import random
import signal

from .common import NCPU


class _Timeout(BaseException):  # must not be swallowed by "except Exception" in oracles
    pass


def _alarm(signum, frame):
    raise _Timeout()


def _shape_of(a, env):
    from .inputs import pyeval
    return [pyeval(x, env) for x in a.type.shape()]


def _rowmajor(sh):
    st = [1] * len(sh)
    for d in range(len(sh) - 2, -1, -1):
        st[d] = st[d + 1] * sh[d + 1]
    return st


def _env_of(pa, side):
    return {a.name: v for a, v in zip(pa.args, side["ctl"]) if not a.type.is_numeric()}


def candidates(p, mod):
    """(kind, descr, thunk -> Procedure, relation info)"""
    from exo import DRAM
    from exo.core.LoopIR import T
    from exo.libs.memories import DRAM_STACK, DRAM_STATIC
    import exo.stdlib.scheduling as S
    import exo.API_cursors as C
    from .gen_schedules import walk_stmts

    pa = p.INTERNAL_proc()
    out = []
    ctl = [a for a in pa.args if not a.type.is_numeric()]
    # partial_eval: all singletons and pairs of control arguments, small value grid
    def vals(a):
        if a.type == T.size:
            return [1, 2, 3]
        if a.type == T.bool:
            return [False, True]
        return [-1, 0, 1, 2]
    for r in (1, 2):
        for combo in itertools.combinations(ctl, r):
            for vs in itertools.product(*[vals(a) for a in combo]):
                kw = {str(a.name): v for a, v in zip(combo, vs)}
                out.append(("partial_eval", str(kw), lambda kw=kw: p.partial_eval(**kw), {"fixed": kw}))
    # positional partial_eval
    if ctl and not pa.args[0].type.is_numeric():
        v0 = vals(pa.args[0])[-1]
        out.append(("partial_eval", f"positional({v0})", lambda: p.partial_eval(v0), {"fixed": {str(pa.args[0].name): v0}}))
    # transpose of every 2-D argument
    for j, a in enumerate(pa.args):
        if a.type.is_numeric() and len(a.type.shape()) == 2:
            out.append(("transpose", str(a.name),
                        lambda a=a: p.transpose([c for c in p.args() if c.name() == str(a.name)][0]),
                        {"transposed": j}))
    # add_assertion: narrowing predicates over the first control args
    for a in ctl[:2]:
        n = str(a.name)
        if a.type == T.bool:
            preds = [f"{n} == True"]
        else:
            preds = [f"{n} <= 2", f"{n} % 2 == 0", f"{n} >= 2"]
        for pr in preds:
            out.append(("add_assertion", pr, lambda pr=pr: p.add_assertion(pr), {"narrow": True}))
    # identity-relation utilities
    out.append(("rename", "renamed", lambda: S.rename(p, p.name() + "_renamed"), {}))
    out.append(("make_instr", "", lambda: S.make_instr(p, "/* no-op */", ""), {}))
    for a in pa.args:
        if a.type.is_numeric():
            n = str(a.name)
            for typ in ("f32", "f64", "i8", "i32"):
                out.append(("set_precision", f"{n},{typ}", lambda n=n, typ=typ: S.set_precision(p, n, typ), {}))
            for mem in (DRAM, DRAM_STACK, DRAM_STATIC):
                out.append(("set_memory", f"{n},{mem.name()}", lambda n=n, mem=mem: S.set_memory(p, n, mem), {}))
            if a.type.shape():
                for w in (True, False):
                    out.append(("set_window", f"{n},{w}", lambda n=n, w=w: S.set_window(p, n, w), {}))
    for s, depth, path in walk_stmts(p.body()):
        if isinstance(s, C.AllocCursor):
            for typ in ("f32", "f64", "i8"):
                out.append(("set_precision", f"alloc {s.name()},{typ}", lambda s=s, typ=typ: S.set_precision(p, s, typ), {}))
            for mem in (DRAM, DRAM_STACK, DRAM_STATIC):
                out.append(("set_memory", f"alloc {s.name()},{mem.name()}", lambda s=s, mem=mem: S.set_memory(p, s, mem), {}))
        if isinstance(s, C.ForCursor):
            out.append(("parallelize_loop", str(path), lambda s=s: S.parallelize_loop(p, s), {}))
    return out


def build_unit(name, p, q, kind, rel, rng, cap):
    from .export import make_unit
    from .inputs import gen_inputs, pyeval, CantEval
    from exo.core.LoopIR import T

    pa, pb = p.INTERNAL_proc(), q.INTERNAL_proc()
    if kind == "add_assertion":
        # narrowing: every input admissible for the new procedure must be admissible for the old
        # one and give the same result -> reference := new, derived := old
        pa, pb = pb, pa
    outmap = None
    fixed = rel.get("fixed")
    if kind == "partial_eval":
        keep = [j for j, a in enumerate(pa.args) if str(a.name) not in fixed]
        if len(keep) != len(pb.args):
            raise ValueError("partial_eval: unexpected arity")
        pos_b = {ja: jb for jb, ja in enumerate(keep)}
        outmap = [{"a": ja + 1, "b": pos_b[ja] + 1, "perm": []}
                  for ja, a in enumerate(pa.args) if a.type.is_numeric()]
    unit, ex = make_unit(name, pa, pb, mode="F", outmap=outmap)
    sides = gen_inputs(pa, ex.cfgtypes(), "F", rng, cap=cap, procs_for_literals=[pb], fixed_ctl=fixed)
    inputs = []
    for sa in sides:
        inp = {"a": sa}
        if kind == "partial_eval":
            inp["b"] = {"ctl": [sa["ctl"][j] for j in keep], "bufs": [sa["bufs"][j] for j in keep], "cfg": sa["cfg"]}
        elif kind == "transpose":
            j = rel["transposed"]
            a = pa.args[j]
            env = _env_of(pa, sa)
            r, c = _shape_of(a, env)
            ba = sa["bufs"][j]
            sb = {"ctl": list(sa["ctl"]), "bufs": list(sa["bufs"]), "cfg": sa["cfg"]}
            if a.type.is_win():
                # a window is a view: the transposed argument views the same cells with swapped strides
                sb["bufs"][j] = {"cells": ba["cells"], "off": ba["off"], "strides": [ba["strides"][1], ba["strides"][0]]}
            else:
                cells = [None] * (r * c)
                perm = [0] * (r * c)
                for i in range(r):
                    for k in range(c):
                        cells[k * r + i] = ba["cells"][i * c + k]
                        perm[i * c + k] = k * r + i + 1
                sb["bufs"][j] = {"cells": cells, "off": 0, "strides": []}
                inp["_perm"] = (j, perm)
            inp["b"] = sb
        else:
            # identity relation, but a tensor that became a window needs an explicit dense layout
            need = [j for j, (x, y) in enumerate(zip(pa.args, pb.args))
                    if y.type.is_numeric() and y.type.is_win() and not x.type.is_win()]
            if need:
                env = _env_of(pa, sa)
                sb = {"ctl": list(sa["ctl"]), "bufs": list(sa["bufs"]), "cfg": sa["cfg"]}
                for j in need:
                    sh = _shape_of(pa.args[j], env)
                    sb["bufs"][j] = {"cells": sa["bufs"][j]["cells"], "off": 0, "strides": _rowmajor(sh)}
                inp["b"] = sb
        inputs.append(inp)
    if kind == "transpose":
        # the permutation depends on the input's sizes: one unit per distinct permutation
        units = []
        groups = {}
        for inp in inputs:
            key = tuple(inp["_perm"][1]) if "_perm" in inp else ()
            groups.setdefault(key, []).append(inp)
        for key, grp in groups.items():
            u = dict(unit)
            om = [dict(m) for m in unit["outmap"]]
            if key:
                j = grp[0]["_perm"][0]
                for m in om:
                    if m["a"] == j + 1:
                        m["perm"] = list(key)
            u["outmap"] = om
            u["inputs"] = [{k: v for k, v in inp.items() if k != "_perm"} for inp in grp]
            units.append(u)
        return units
    unit["inputs"] = inputs
    return [unit]


def _job(job, emit):
    signal.signal(signal.SIGALRM, _alarm)
    from .export import ExportError

    mod = importlib.import_module(job["module"])
    p = mod.PROCS[job["index"]]
    prog = f"{job['module'].split('.')[-1]}.{p.name()}"
    rng = random.Random(f"{job['seed']}/{prog}/c19")
    cands = candidates(p, mod)
    rng2 = random.Random(f"{job['seed']}/{prog}/pick")
    if job.get("max_cands") and len(cands) > job["max_cands"]:
        # keep every kind represented
        by = {}
        for c in cands:
            by.setdefault(c[0], []).append(c)
        picked = []
        per = max(2, job["max_cands"] // len(by))
        for kind, cs in by.items():
            rng2.shuffle(cs)
            picked += cs[:per]
        cands = picked
    for k, (kind, descr, fn, rel) in enumerate(cands):
        emit("begin", k)
        rec = {"prog": prog, "op": kind, "args": descr, "facts": {}, "chain": []}
        signal.alarm(40)
        try:
            q = fn()
            signal.alarm(0)
        except _Timeout:
            rec.update(status="rejected", exc="Timeout")
            emit("rec", rec)
            continue
        except Exception as e:
            signal.alarm(0)
            rec.update(status="rejected", exc=type(e).__name__, msg=str(e)[:200])
            emit("rec", rec)
            continue
        try:
            units = build_unit(f"{prog}|{kind}({descr})", p, q, kind, rel, rng, job["cap"])
        except (ExportError, ValueError) as e:
            rec.update(status="export-error", msg=str(e)[:200])
            emit("rec", rec)
            continue
        from .edges import _safe_str
        rec["text_a"] = _safe_str(p)
        rec["text_b"] = _safe_str(q)
        for ui, u in enumerate(units):
            r2 = dict(rec)
            r2["status"] = "accepted"
            r2["dedupe"] = f"{prog}:{kind}:{descr}:{ui}"
            r2["modset"] = []
            r2["features"] = []
            r2["unit"] = u
            emit("rec", r2)


def run(modules, seed, cap, select=None, max_cands=None):
    from .pool import stream_pool
    from .common import MachineryError

    jobs = []
    for m in modules:
        mod = importlib.import_module(m)
        for idx, p in enumerate(mod.PROCS):
            if select is not None and not select(m, p):
                continue
            jobs.append({"module": m, "index": idx, "seed": seed, "cap": cap, "max_cands": max_cands})
    recs, crashes, hangs = stream_pool(jobs, _job, NCPU, silence=200)
    if crashes:
        raise MachineryError("C19 worker crashed:\n" + crashes[0][1])
    recs.sort(key=lambda e: (e["prog"], e["op"], e["args"], e.get("dedupe", "")))
    return recs
