"""Spec -> code replay for spec/Annot.tla: each annotation assignment is applied to the template call
graph with the real set_precision / set_memory / set_window and compiled by the real backend; an
accepted compile is additionally judged by gcc (-fsyntax-only with strict diagnostics)."""
from __future__ import annotations

import os
import subprocess

from exo import proc, DRAM
from exo.core.memory import Memory
from exo.libs.memories import DRAM_STACK
from exo.API import compile_procs_to_strings
import exo.stdlib.scheduling as S


class NOACC(Memory):
    """a memory whose buffers cannot be read or written directly (like vector register files)"""

    @classmethod
    def global_(cls):
        return "#include <stdlib.h>"

    @classmethod
    def can_read(cls):
        return False

    @classmethod
    def alloc(cls, new_name, prim_type, shape, srcinfo):
        if not shape:
            return f"{prim_type} {new_name};"
        return f"{prim_type} *{new_name} = ({prim_type}*) malloc({' * '.join(shape)} * sizeof(*{new_name}));"

    @classmethod
    def free(cls, new_name, prim_type, shape, srcinfo):
        return f"free({new_name});" if shape else ""


MEM = {"DRAM": DRAM, "STACK": DRAM_STACK, "NOACC": NOACC}


def template(alias=False):
    @proc
    def leaf(d: [f32][8], s: [f32][8], r: f32):
        for i in seq(0, 8):
            d[i] = s[i] * r

    if alias:
        @proc
        def callee(x: f32[8], y: f32[8]):
            t: f32[8]
            c: f32
            c = 2.0
            w = y[0:8]
            for i in seq(0, 8):
                t[i] = x[i] + w[i]
            leaf(w, t[0:8], c)
    else:
        @proc
        def callee(x: f32[8], y: f32[8]):
            t: f32[8]
            c: f32
            c = 2.0
            for i in seq(0, 8):
                t[i] = x[i] + y[i]
            leaf(y[0:8], t[0:8], c)

    @proc
    def caller(a: f32[8], b: f32[8]):
        callee(a, b)

    return leaf, callee, caller


_T = {}


def instantiate(asg):
    """apply the assignment bottom-up with the real operators; calls are re-targeted with call_eqv-free
    reconstruction: each level is re-defined by replacing its callee through the public API"""
    al = bool(asg.get("alias", False))
    if al not in _T:
        _T[al] = template(al)
    leaf, callee, caller = _T[al]
    lf = leaf
    for u in ("d", "s"):
        lf = S.set_precision(lf, u, asg["prec"][u])
        lf = S.set_memory(lf, u, MEM[asg["mem"][u]])
    lf = S.set_precision(lf, "r", asg["prec"].get("r", "f32"))
    ce = callee
    for u in ("x", "y"):
        ce = S.set_precision(ce, u, asg["prec"][u])
        ce = S.set_memory(ce, u, MEM[asg["mem"][u]])
        if asg["win"][u]:
            ce = S.set_window(ce, u, True)
    ce = S.set_precision(ce, "t : _", asg["prec"]["t"])
    ce = S.set_memory(ce, "t : _", MEM[asg["mem"]["t"]])
    ce = S.set_precision(ce, "c : _", asg["prec"].get("c", "f32"))
    ce = S.call_eqv(ce, "leaf(_)", lf)
    cr = caller
    for u in ("a", "b"):
        cr = S.set_precision(cr, u, asg["prec"][u])
        cr = S.set_memory(cr, u, MEM[asg["mem"][u]])
        if asg["win"][u]:
            cr = S.set_window(cr, u, True)
    cr = S.call_eqv(cr, "callee(_)", ce)
    return cr


GCC = ["gcc", "-std=c11", "-fsyntax-only", "-Wall", "-Werror=implicit-function-declaration",
       "-Werror=incompatible-pointer-types", "-Werror=int-conversion", "-Werror=discarded-qualifiers",
       "-Wno-unused-variable", "-Wno-unused-function", "-Wno-unknown-pragmas"]


def replay(asg, workdir, k):
    """-> dict(status = rejected-by-scheduling | rejected | accepted, exc, cc_ok, cc_msg)"""
    try:
        p = instantiate(asg)
    except Exception as e:
        return {"status": "rejected-by-scheduling", "exc": type(e).__name__, "msg": str(e)[:200]}
    try:
        c, h = compile_procs_to_strings([p], "annot.h")
    except Exception as e:
        return {"status": "rejected", "exc": type(e).__name__, "msg": str(e)[:200]}
    d = os.path.join(workdir, f"annot_{k}")
    os.makedirs(d, exist_ok=True)
    with open(os.path.join(d, "annot.c"), "w") as f:
        f.write(c)
    with open(os.path.join(d, "annot.h"), "w") as f:
        f.write(h)
    r = subprocess.run(GCC + ["annot.c"], cwd=d, capture_output=True, text=True)
    r2 = subprocess.run(GCC + ["-x", "c", "annot.h"], cwd=d, capture_output=True, text=True)
    ok = r.returncode == 0 and r2.returncode == 0
    return {"status": "accepted", "cc_ok": ok, "cc_msg": (r.stderr + r2.stderr)[-1500:], "c": c[-2500:] if not ok else ""}
