"""Spec -> code replay for spec/ProcEqv.tla: each explored state's witness history is performed
through the public objects (Procedure construction = decl/derive, unsafe_assert_eq) and all
pairwise answers of get_strictest_eqv_proc / check_eqv_proc / Procedure.is_eq are compared with the
abstract per-field closure computed by the specification."""
from __future__ import annotations

import itertools

from exo.API import Procedure
from exo.core.LoopIR import LoopIR, T
from exo.core.prelude import Sym, null_srcinfo
from exo.core.proc_eqv import check_eqv_proc, get_strictest_eqv_proc

SI = null_srcinfo()
_ctr = itertools.count()


def fresh_ir():
    k = next(_ctr)
    x = Sym("x")
    return LoopIR.proc(f"p{k}", [LoopIR.fnarg(x, T.f32, None, SI)], [],
                       [LoopIR.Assign(x, T.f32, [], LoopIR.Const(float(k), T.f32, SI), SI)], None, SI)


def replay(rec, key_names=("x", "y")):
    """-> list of mismatches"""
    # a fresh tracker per history (stands for a fresh interpreter): the module keeps every key
    # and procedure ever seen in process-global tables
    import exo.core.proc_eqv as pe
    pe._UF_Unv = pe._UnionFind()
    pe._UF_Strict = pe._UnionFind()
    pe._UF_Unv_key = dict()
    keys = {k: Sym(k) for k in key_names}  # fresh keys: lazily created per history, as in the spec
    procs = {}
    for st in rec["h"]:
        if st["op"] == "decl":
            procs[st["p"]] = Procedure(fresh_ir())
        elif st["op"] == "derive":
            K = frozenset(keys[k] for k in st["K"])
            procs[st["q"]] = Procedure(fresh_ir(), _provenance_eq_Procedure=procs[st["p"]], _mod_config=K)
        elif st["op"] == "assert":
            if st["K"]:
                # derive_proc onto an already tracked procedure = assert_eqv_proc with a modset
                from exo.core.proc_eqv import assert_eqv_proc
                assert_eqv_proc(procs[st["p"]].INTERNAL_proc(), procs[st["q"]].INTERNAL_proc(),
                                frozenset(keys[k] for k in st["K"]))
            else:
                procs[st["p"]].unsafe_assert_eq(procs[st["q"]])
        else:
            raise ValueError(st)
    out = []
    n = rec["n"]
    inv = {v: k for k, v in keys.items()}
    for p in range(1, n + 1):
        for q in range(1, n + 1):
            want = rec["ans"][p - 1][q - 1]
            ip, iq = procs[p].INTERNAL_proc(), procs[q].INTERNAL_proc()
            is_eqv, ks = get_strictest_eqv_proc(ip, iq)
            got_K = sorted(inv[k] for k in ks if k in inv)
            if bool(is_eqv) != want["eq"] or (want["eq"] and got_K != sorted(want["K"])):
                out.append(f"strictest({p},{q}): impl {(is_eqv, got_K)} spec {want}")
            for r in range(len(key_names) + 1):
                for K in itertools.combinations(key_names, r):
                    exp = want["eq"] and set(want["K"]) <= set(K)
                    got = check_eqv_proc(ip, iq, frozenset(keys[k] for k in K))
                    if bool(got) != bool(exp):
                        out.append(f"check({p},{q},{K}): impl {got} spec {exp}")
            exp = want["eq"] and not want["K"]
            got = procs[p].is_eq(procs[q])
            if bool(got) != bool(exp):
                out.append(f"is_eq({p},{q}): impl {got} spec {exp}")
    return out
