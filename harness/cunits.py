"""ExoCTrace units: run the real compiled C of a procedure on the bounded input domain and
attach the observed event/final state to each input, for validation by spec/ExoMachine.tla."""
from __future__ import annotations

import importlib
import multiprocessing as mp
import os
import random
import signal
import traceback

from .common import NCPU


class _Timeout(Exception):
    pass


def _alarm(signum, frame):
    raise _Timeout()


def build_c_unit(name, procedure, rng, cap, workdir, tag, cc="gcc", opt="-O1", sanitize=True,
                 extra_flags=(), zrange=(1, 12), frees_ir=None):
    """Returns (unit, info).  Raises ExportError for procedures mode Z cannot express."""
    from .export import make_unit
    from .inputs import gen_inputs
    from .cdrv import run_c, attach_outputs, cfg_fields_of

    pa = procedure.INTERNAL_proc()
    unit, ex = make_unit(name, pa, None, mode="Z")
    sides = gen_inputs(pa, ex.cfgtypes(), "Z", rng, cap=cap, zrange=zrange)
    unit["inputs"] = [{"a": s} for s in sides]
    cfgf = cfg_fields_of(ex)
    outs, files = run_c(procedure, cfgf, sides, workdir, cc=cc, opt=opt, sanitize=sanitize,
                        extra_flags=extra_flags, tag=tag)
    attach_outputs(unit, cfgf, outs)
    unit["features"] = sorted(ex.features)
    info = {"events": [o["event"] for o in outs],
            "msgs": [o.get("msg", "")[-800:] for o in outs if o["event"] != "return"][:3],
            "c_text": files.get(f"{pa.name}.c", "")[:6000]}
    return unit, info


def _cjob(job, emit):
    signal.signal(signal.SIGALRM, _alarm)
    if True:
        from .export import ExportError
        from .gen_schedules import enumerate_candidates
        from .edges import corpus_ctx

        mod = importlib.import_module(job["module"])
        p = mod.PROCS[job["index"]]
        prog = f"{job['module'].split('.')[-1]}.{p.name()}"
        rng = random.Random(f"{job['seed']}/{prog}/c")
        out = []
        targets = [(prog, "", p)]
        if job.get("derived", 0) > 0:
            cands = enumerate_candidates(p, corpus_ctx(mod), ops=job.get("ops"))
            rng.shuffle(cands)
            got = 0
            for c in cands:
                if got >= job["derived"]:
                    break
                signal.alarm(40)
                try:
                    q = c.fn()
                    signal.alarm(0)
                except BaseException:
                    signal.alarm(0)
                    continue
                if q is None or str(q) == str(p):
                    continue
                targets.append((prog, f"{c.op}({c.args})", q))
                got += 1
        for k, (pg, how, q) in enumerate(targets):
            emit("begin", k)
            rec = {"prog": pg, "how": how, "text": str(q)}
            try:
                signal.alarm(120)
                unit, info = build_c_unit(f"{pg}|{how}", q, rng, job["cap"], job["workdir"],
                                          tag=f"{job['module'].split('.')[-1]}_{job['index']}_{k}",
                                          cc=job.get("cc", "gcc"), opt=job.get("opt", "-O1"),
                                          sanitize=job.get("sanitize", True),
                                          extra_flags=job.get("extra_flags", ()))
                signal.alarm(0)
                rec["status"] = "compiled"
                rec["unit"] = unit
                rec["info"] = info
                if job.get("heap"):
                    # the IR after the backend analyses (with Free statements), for the HeapOK monitor
                    from .analyzed import analyzed_proc
                    from .export import make_unit
                    from .inputs import gen_inputs
                    signal.alarm(60)
                    ap = analyzed_proc(q.INTERNAL_proc())
                    hu, hex_ = make_unit(f"{pg}|{how}|analysed", ap, None, mode="F", frees=True)
                    hu["inputs"] = [{"a": s_} for s_ in gen_inputs(ap, hex_.cfgtypes(), "F", rng, cap=job["cap"])]
                    signal.alarm(0)
                    rec["heap_unit"] = hu
                    rec["analysed_text"] = str(ap)[:4000]
            except ExportError as e:
                signal.alarm(0)
                rec["status"] = "export-error"
                rec["msg"] = str(e)[:200]
            except _Timeout:
                rec["status"] = "timeout"
            except Exception as e:
                signal.alarm(0)
                # exo's backend refused to compile: documented exception classes are admissible
                rec["status"] = "compile-error"
                rec["exc"] = type(e).__name__
                rec["msg"] = str(e)[:300]
            emit("rec", rec)


def run_cjobs(modules, seed, cap, workdir, derived=0, select=None, **kw):
    jobs = []
    for m in modules:
        mod = importlib.import_module(m)
        for idx, p in enumerate(mod.PROCS):
            if select is not None and not select(m, p):
                continue
            j = {"module": m, "index": idx, "seed": seed, "cap": cap, "workdir": workdir, "derived": derived}
            j.update(kw)
            jobs.append(j)
    from .pool import stream_pool
    from .common import MachineryError

    recs, crashes, hangs = stream_pool(jobs, _cjob, NCPU, silence=300)
    if crashes:
        raise MachineryError("C worker crashed:\n" + crashes[0][1])
    recs.sort(key=lambda r: (r["prog"], r["how"]))
    return recs
