"""Code -> spec binding on the repository's OWN tests (DESIGN 4.3(b)).

A pytest plugin (loaded with `-p harness.testrec`, PYTHONPATH = exo sources + /verif; zero edits to
the repository) wraps `exo.API.Procedure.__init__`: every derivation step performed while the
repository's tests run - including every elementary step of the stdlib's composite schedules - is
recorded as an edge (parent Procedure, derived Procedure, reported modset) with the test that made it.
Each edge is
  * projected to a unit of spec/ExoMachine.tla (equivalence, safety, scope: C01/C04/C10),
  * judged by the forwarding oracle of spec/CursorEdit.tla with node identity as the label (C06),
  * and every Procedure is deep-fingerprinted at creation and again when its test ends (C07).
The driver below runs the chosen test files in parallel pytest processes and returns the records.
The tests' own assertions are irrelevant here; a test that fails or errors still contributes the
edges it made."""
from __future__ import annotations

import hashlib
import json
import os
import random
import subprocess
import sys
import time

# ----------------------------------------------------------------------------- plugin side
_OUT = os.environ.get("TESTREC_OUT")
_STATE = {"test": "?", "n": 0, "seen": set(), "procs": [], "fh": None, "busy": False, "t_over": 0.0}


def _emit(rec):
    fh = _STATE["fh"]
    if fh is None:
        fh = _STATE["fh"] = open(_OUT, "a")
    fh.write(json.dumps(rec, default=str) + "\n")
    fh.flush()


def _opname():
    """name of the scheduling operation that is creating the Procedure (innermost frame of
    API_scheduling.py / API.py that is not a constructor)"""
    f = sys._getframe(2)
    names = []
    while f is not None and len(names) < 40:
        fn = f.f_code.co_filename
        if fn.endswith("API_scheduling.py") or fn.endswith("exo/API.py"):
            nm = f.f_code.co_name
            if nm not in ("__init__", "__call__", "_make_procedure"):
                return nm
        f = f.f_back
    return "?"


def _identity_fwd(parent, child, budget):
    """C06 on one recorded edge, label = identity of carried-over statement nodes."""
    from . import fwdcheck as F
    from exo.core.LoopIR import LoopIR

    def stmt_ids(ir):
        out = {}
        stack = list(ir.body)
        while stack:
            s = stack.pop()
            out[id(s)] = s
            if isinstance(s, LoopIR.For):
                stack.extend(s.body)
            elif isinstance(s, LoopIR.If):
                stack.extend(s.body)
                stack.extend(s.orelse)
        return out

    old = stmt_ids(parent._loopir_proc)
    new = stmt_ids(child._loopir_proc)
    shared = {k for k in old if k in new and not isinstance(old[k], (LoopIR.For, LoopIR.If, LoopIR.Pass))}
    if not shared:
        return {"cursors": 0, "shared": 0, "viols": [], "counts": {}}
    saved = F.leaf_label
    F.leaf_label = lambda n: ("id", id(n)) if id(n) in shared else None
    try:
        curs = F.cursors_of(parent)
        if len(curs) > budget:
            rng = random.Random(len(curs))
            curs = rng.sample(curs, budget)
        live = F.all_leaves(child._loopir_proc)
        old_all = F.all_leaves(parent._loopir_proc)
        cnt, viols = {}, []
        for kind, descr, c in curs:
            v, det = F.fwd_and_judge(child, kind, c, live, old_all)
            cnt[v] = cnt.get(v, 0) + 1
            if v in ("wrong-statement", "dangling"):
                viols.append({"cursor": f"{kind} {descr}", "verdict": v, "detail": det})
        return {"cursors": len(curs), "shared": len(shared), "viols": viols[:6], "n_viol": len(viols), "counts": cnt}
    finally:
        F.leaf_label = saved


def _record_edge(parent, child, mod_config):
    from .edges import build_edge_unit, canon_proc_hash, top_proc_hash
    from .export import ExportError
    cap = int(os.environ.get("TESTREC_CAP", "6"))
    op = _opname()
    rec = {"kind": "edge", "test": _STATE["test"], "op": op, "n": _STATE["n"]}
    _STATE["n"] += 1
    if parent._loopir_proc is child._loopir_proc:
        rec["status"] = "noop"
        _emit(rec)
        return
    rng = random.Random(f"{os.environ.get('VERIF_EFF_SEED', '0')}/{_STATE['test']}/{rec['n']}")
    if os.environ.get("TESTREC_UNITS", "1") != "1":
        rec["status"] = "unprojected"
        rec["text_a"] = str(parent)[:3000]
        rec["text_b"] = str(child)[:3000]
        if rec["text_a"] == rec["text_b"]:
            rec["status"] = "noop"
    else:
      try:
        unit = build_edge_unit(f"{_STATE['test']}|{op}#{rec['n']}", parent, child, "F", rng, cap,
                               max_cells=int(os.environ.get("TESTREC_MAX_CELLS", "600")),
                               trace=op in os.environ.get("TESTREC_TRACE_OPS", "").split(","))
        ha, hb = canon_proc_hash(unit, "A"), canon_proc_hash(unit, "B")
        if top_proc_hash(unit, "A") == top_proc_hash(unit, "B"):
            rec["status"] = "noop"
        else:
            rec["status"] = "accepted"
            rec["dedupe"] = f"{ha}:{hb}:{','.join(unit['modset_names'])}"
            rec["modset"] = unit["modset_names"]
            if rec["dedupe"] not in _STATE["seen"]:
                _STATE["seen"].add(rec["dedupe"])
                if unit["inputs"]:
                    rec["unit"] = unit
                else:
                    rec["status"] = "no-input"
                rec["text_a"] = str(parent)[:4000]
                rec["text_b"] = str(child)[:4000]
      except ExportError as e:
        rec["status"] = "export-error"
        rec["msg"] = str(e)[:160]
      except RecursionError:
        rec["status"] = "export-error"
        rec["msg"] = "RecursionError"
    if os.environ.get("TESTREC_FWD", "1") == "1" and rec["status"] != "noop":
        try:
            rec["fwd"] = _identity_fwd(parent, child, int(os.environ.get("TESTREC_FWD_BUDGET", "150")))
            if rec["fwd"].get("n_viol") and "text_a" not in rec:
                rec["text_a"] = str(parent)[:4000]
                rec["text_b"] = str(child)[:4000]
        except Exception as e:  # the oracle itself failed: not evidence either way
            rec["fwd"] = {"error": f"{type(e).__name__}: {str(e)[:120]}"}
    _emit(rec)


def _host_realizable(ir, seen=None):
    """only host memories, no hardware instructions, only externs the machine knows in value mode Z"""
    from exo.core.LoopIR import LoopIR
    seen = seen if seen is not None else set()
    if id(ir) in seen:
        return True
    seen.add(id(ir))
    if ir.instr is not None:
        return False
    okmem = {"DRAM", "DRAM_STACK", "DRAM_STATIC"}
    for a in ir.args:
        if a.mem is not None and a.mem.name() not in okmem:
            return False
    ok = [True]

    def ex(e):
        if isinstance(e, LoopIR.Extern):
            if e.f.name() not in ("relu", "select", "fmaxf", "fminf", "clamp", "abs"):
                ok[0] = False
            for x in e.args:
                ex(x)
        elif isinstance(e, LoopIR.BinOp):
            ex(e.lhs)
            ex(e.rhs)
        elif isinstance(e, LoopIR.USub):
            ex(e.arg)

    def st(ss):
        for s in ss:
            if isinstance(s, LoopIR.Alloc):
                if s.mem is not None and s.mem.name() not in okmem:
                    ok[0] = False
            elif isinstance(s, (LoopIR.Assign, LoopIR.Reduce, LoopIR.WriteConfig)):
                ex(s.rhs)
            elif isinstance(s, LoopIR.Call):
                if not _host_realizable(s.f, seen):
                    ok[0] = False
            elif isinstance(s, LoopIR.If):
                st(s.body)
                st(s.orelse)
            elif isinstance(s, LoopIR.For):
                st(s.body)
    st(ir.body)
    return ok[0]


def _c_unit_of_last():
    """C02/C08 on the repository's tests: the last Procedure a test created is compiled by the real backend, built with
    gcc + sanitizers, run on the bounded inputs and packaged as an ExoCTrace unit (spec/ExoMachine.tla, mode Z)."""
    import shutil
    import tempfile
    last = _STATE.get("last_proc")
    budget = _STATE.get("c_budget", 0)
    if last is None or budget <= 0:
        return
    _STATE["last_proc"] = None
    rec = {"kind": "cunit", "prog": "repo:" + _STATE["test"], "how": "final procedure of the test"}
    try:
        ir = last._loopir_proc
        if not _host_realizable(ir):
            return
        from .cunits import build_c_unit
        from .export import ExportError
        rec["text"] = str(last)[:4000]
        d = tempfile.mkdtemp(prefix="testrec_c_", dir=os.environ.get("VERIF_SCRATCH", "/var/tmp"))
        try:
            rng = random.Random(f"c/{_STATE['test']}")
            unit, info = build_c_unit(rec["prog"], last, rng, int(os.environ.get("TESTREC_CAP", "3")), d,
                                      tag="t%d" % _STATE["n"], zrange=(1, 12))
            if sum(len(b["cells"]) for i in unit["inputs"] for b in i["a"]["bufs"]) > 6000:
                return
            rec.update({"status": "compiled", "unit": unit, "info": info})
            _STATE["c_budget"] = budget - 1
            if os.environ.get("TESTREC_HEAP", "0") == "1":
                # the IR after the backend analyses (with Free statements), for the HeapOK monitor (C08)
                from .analyzed import analyzed_proc
                from .export import make_unit
                from .inputs import gen_inputs
                ap = analyzed_proc(ir)
                hu, hex_ = make_unit(rec["prog"] + "|analysed", ap, None, mode="F", frees=True)
                hu["inputs"] = [{"a": s_} for s_ in gen_inputs(ap, hex_.cfgtypes(), "F", rng, cap=int(os.environ.get("TESTREC_CAP", "3")),
                                                               max_cells=1500)]
                hu["features"] = sorted(hex_.features)
                if hu["inputs"]:
                    rec["heap_unit"] = hu
                    rec["analysed_text"] = str(ap)[:4000]
        except ExportError as e:
            rec.update({"status": "export-error", "msg": str(e)[:160]})
        except Exception as e:
            rec.update({"status": "compile-error", "exc": type(e).__name__, "msg": str(e)[:200]})
        finally:
            shutil.rmtree(d, ignore_errors=True)
    except Exception as e:
        rec.update({"status": "recorder-error", "msg": f"{type(e).__name__}: {str(e)[:160]}"})
    _emit(rec)


def _reparse_last():
    """C17 on the repository's tests: the final Procedure of a test is printed (with the injectivity monitor on the real
    PrintEnv), parsed again by the real front end, printed again, and packaged as an equivalence unit."""
    last = _STATE.get("last_proc_rp")
    budget = _STATE.get("rp_budget", 0)
    if last is None or budget <= 0:
        return
    _STATE["last_proc_rp"] = None
    _STATE["rp_budget"] = budget - 1
    # The front end's own checks on the reparsed text can sit in one z3 query for a very long time (avx2 sgemm of
    # tests/test_x86.py: > 15 min, and pytest's signal-based timeout is not delivered inside z3), so the reparse runs
    # in a forked child under a wall-clock limit; a child that exceeds it is lost coverage ("recorder-timeout").
    limit = float(os.environ.get("TESTREC_RP_LIMIT", "150"))
    fh = _STATE.get("fh")
    if fh is not None:
        fh.flush()
    pid = os.fork()
    if pid == 0:
        code = 0
        try:
            _reparse_body(last)
        except BaseException:
            code = 1
        finally:
            os._exit(code)
    t0 = time.time()
    done = False
    try:
        while time.time() - t0 < limit:
            r, _st = os.waitpid(pid, os.WNOHANG)
            if r == pid:
                done = True
                break
            time.sleep(0.05)
    finally:
        if not done:
            try:
                os.kill(pid, 9)
                os.waitpid(pid, 0)
            except OSError:
                pass
            _emit({"kind": "reparse", "prog": "repo:" + _STATE["test"], "how": "final procedure of the test",
                   "status": "recorder-timeout"})


def _reparse_body(last):
    from .reparse import reparse, well_scoped
    from .replay_printenv import InjectivityMonitor
    from .export import make_unit, ExportError
    from .inputs import gen_inputs
    rec = {"kind": "reparse", "prog": "repo:" + _STATE["test"], "how": "final procedure of the test"}
    try:
        if not well_scoped(last._loopir_proc):
            rec["status"] = "source-ill-scoped"
            _emit(rec)
            return
        with InjectivityMonitor() as mon:
            text = str(last)
        rec["text"] = text[:6000]
        rec["name_clashes"] = mon.violations[:4]
        st, r = reparse(last)
        rec["status"] = st
        if st != "ok":
            rec["msg"] = r
        else:
            rec["text2"] = str(r)[:6000]
            rec["same_text"] = (str(r) == text)
            try:
                unit, ex = make_unit(rec["prog"] + "|reparse", last._loopir_proc, r._loopir_proc, mode="F")
                rng = random.Random(f"rp/{_STATE['test']}")
                unit["inputs"] = [{"a": s_} for s_ in gen_inputs(last._loopir_proc, ex.cfgtypes(), "F", rng,
                                                                 cap=int(os.environ.get("TESTREC_CAP", "3")), max_cells=600)]
                if unit["inputs"]:
                    rec["unit"] = unit
            except ExportError as e:
                rec["export_error"] = str(e)[:100]
    except Exception as e:
        rec["status"] = "recorder-error"
        rec["msg"] = f"{type(e).__name__}: {str(e)[:200]}"
    _emit(rec)


def _install():
    import exo.API as API
    orig_init = API.Procedure.__init__

    def init(self, proc, _provenance_eq_Procedure=None, _forward=None, _mod_config=None):
        orig_init(self, proc, _provenance_eq_Procedure, _forward, _mod_config)
        if _STATE["busy"]:
            return
        _STATE["busy"] = True
        t0 = time.time()
        try:
            if os.environ.get("TESTREC_PURITY", "1") == "1":
                _STATE["procs"].append((self, _fp(self) if _STATE["test"] == "?" else "", _STATE["test"]))
                _session_event(_opname(), True, new=self)
            if _STATE["test"] != "?" and _provenance_eq_Procedure is not None:
                _STATE["last_proc"] = self
                _STATE["last_proc_rp"] = self
            if os.environ.get("TESTREC_TEXTS", "0") == "1":
                try:
                    dg = hashlib.sha1(str(self).encode()).hexdigest()[:12]
                except Exception as e:
                    dg = "E:" + type(e).__name__
                _STATE.setdefault("texts", []).append(dg)
            if _provenance_eq_Procedure is not None:
                try:
                    _record_edge(_provenance_eq_Procedure, self, _mod_config)
                except Exception as e:
                    _emit({"kind": "edge", "test": _STATE["test"], "op": "?", "status": "recorder-error",
                           "msg": f"{type(e).__name__}: {str(e)[:200]}"})
        finally:
            _STATE["busy"] = False
            _STATE["t_over"] += time.time() - t0

    API.Procedure.__init__ = init


_TEXT_DIGEST = {}


def _fp(p, reprint=True):
    """structural fingerprint + digest of the printed text.  Printing is the expensive part (the formatter), so between
    the creation of a procedure and the end of its test the last printed digest is reused (reprint=False); the
    structural part is always recomputed."""
    from .purity import deep_fp
    try:
        if reprint or id(p) not in _TEXT_DIGEST:
            _TEXT_DIGEST[id(p)] = hashlib.sha1(str(p).encode()).hexdigest()[:12]
        return deep_fp(p._loopir_proc) + ":" + _TEXT_DIGEST[id(p)]
    except Exception as e:
        return "error:" + type(e).__name__


# C07 sessions in the trace format of spec/SessionTrace.tla.  One session per test: handles = the
# Procedures the test created, in order; one event per creation (all live handles re-fingerprinted)
# and one closing event when the test ends (covers operations that raised).  One more session per
# file: the Procedures created at import time (platform libraries, module-level fixtures), observed
# again when all tests of the file have run.
def _session_event(op, ok, new=None):
    """the session's handles are exactly the Procedures whose creation was recorded as an event of this session"""
    ses = _STATE.get("session")
    if ses is None:
        return
    hs = ses.setdefault("handles", [])
    cache = ses.setdefault("fpcache", [])
    # (an interrupted recording - pytest's own timeout firing inside the wrapper - may have left an unrecorded handle)
    del hs[len(cache):]
    if new is not None:
        hs.append(new)
    # every handle is re-fingerprinted at the end of the test; after each creation, for long sessions, only the new
    # procedure, its provenance chain and the most recent handles are (the others keep their last observed fingerprint)
    full = op == "(test end)" or len(hs) <= 16
    recheck = set(range(max(0, len(hs) - 6), len(hs)))
    if new is not None and not full:
        anc, pos = new, {id(p): k for k, p in enumerate(hs)}
        while anc is not None:
            if id(anc) in pos:
                recheck.add(pos[id(anc)])
            anc = getattr(anc, "_provenance_eq_Procedure", None)
    fps = [(_fp(p, reprint=(op == "(test end)" or k >= len(cache))) if (full or k in recheck or k >= len(cache)) else cache[k])
           for k, p in enumerate(hs)]
    ses["fpcache"] = fps
    ses["trace"]["events"].append({"op": op, "ok": ok, "fps": fps, "cfps": []})
    ses["meta"].append({"op": op, "ok": ok, "exc": "", "handles": len(hs)})


def _session_close():
    ses = _STATE.pop("session", None)
    if ses is None:
        return
    if ses["trace"]["events"]:
        _STATE["busy"] = True
        t0 = time.time()
        try:
            _STATE["session"] = ses
            _session_event("(test end)", False)
            _STATE.pop("session", None)
            ses.pop("handles", None)
            ses.pop("fpcache", None)
            _emit({"kind": "session", "test": ses["test"], "trace": ses["trace"], "meta": ses["meta"]})
        finally:
            _STATE["busy"] = False
            _STATE["t_sweep"] = _STATE.get("t_sweep", 0.0) + time.time() - t0


def _imports_session():
    glob = [t for t in _STATE["procs"] if t[2] == "?"]
    if not glob:
        return
    _STATE["busy"] = True
    try:
        trace = {"init": {"fps": [fp for _, fp, _ in glob], "cfps": []},
                 "events": [{"op": "(all tests of the file)", "ok": False, "fps": [_fp(p) for p, _, _ in glob], "cfps": []}]}
        _emit({"kind": "session", "test": "(import-time procedures)", "trace": trace,
               "meta": [{"op": "(all tests of the file)", "ok": False, "exc": "", "handles": len(glob),
                         "names": [p.name() for p, _, _ in glob][:400]}]})
    finally:
        _STATE["busy"] = False


if _OUT:
    import pytest

    if int(os.environ.get("TESTREC_SYM_OFFSET", "0")) > 0:
        from exo.core.prelude import Sym as _Sym
        for _k in range(int(os.environ["TESTREC_SYM_OFFSET"])):
            _Sym(f"dummy{_k}")

    _install()

    _CLAIMS = []
    if os.environ.get("TESTREC_CLAIMS", "0") == "1":
        # every claim the real range analysis makes while the repository's tests run (C13)
        from .rangeclaims import install_recorder as _install_claims
        _claim_tag = ["repo-test"]
        _install_claims(_CLAIMS, _claim_tag)

    if os.environ.get("TESTREC_EDITS", "0") == "1":
        from . import edittrace as _ET
        _ET.start(cap=int(os.environ.get("TESTREC_EDIT_CAP", "600")))
    else:
        _ET = None

    @pytest.hookimpl(tryfirst=True)
    def pytest_runtest_setup(item):
        _STATE["test"] = item.nodeid
        if _ET is not None:
            _ET.set_ctx(item.nodeid)
        if os.environ.get("TESTREC_PURITY", "1") == "1":
            _STATE["session"] = {"test": item.nodeid, "trace": {"init": {"fps": [], "cfps": []}, "events": []}, "meta": []}

    @pytest.hookimpl(trylast=True)
    def pytest_runtest_teardown(item, nextitem):
        if _STATE.get("texts"):
            _emit({"kind": "texts", "test": item.nodeid, "digests": _STATE.pop("texts")})
        if int(os.environ.get("TESTREC_REPARSE", "0")) > 0:
            _STATE.setdefault("rp_budget", int(os.environ["TESTREC_REPARSE"]))
            _STATE["busy"] = True
            try:
                _reparse_last()
            finally:
                _STATE["busy"] = False
        if int(os.environ.get("TESTREC_C", "0")) > 0:
            _STATE.setdefault("c_budget", int(os.environ["TESTREC_C"]))
            _STATE["busy"] = True
            try:
                _c_unit_of_last()
            finally:
                _STATE["busy"] = False
        _session_close()
        _STATE["procs"] = [t for t in _STATE["procs"] if t[2] == "?"]
        _TEXT_DIGEST.clear()
        _STATE["test"] = "?"

    def pytest_sessionfinish(session, exitstatus):
        _STATE["test"] = "(session end)"
        if _ET is not None:
            _emit({"kind": "edits", "edits": _ET.drain(), "edit_stats": _ET.stats()})
        if _CLAIMS:
            seen, out = set(), []
            for c in _CLAIMS:
                k = json.dumps([c["e"], c["env"], c["base"], c["haslo"], c["lo"], c["hashi"], c["hi"]], sort_keys=True)
                if k not in seen:
                    seen.add(k)
                    out.append(c)
            _emit({"kind": "claims", "claims": out[: int(os.environ.get("TESTREC_MAX_CLAIMS", "4000"))], "logged": len(_CLAIMS)})
        if os.environ.get("TESTREC_PURITY", "1") == "1":
            _imports_session()
        _emit({"kind": "end", "overhead_s": round(_STATE["t_over"], 1), "sweep_s": round(_STATE.get("t_sweep", 0.0), 1),
               "edges": _STATE["n"]})


# ----------------------------------------------------------------------------- driver side
QUICK_FILES = ["tests/test_schedules.py", "tests/test_cursors.py", "tests/test_new_eff.py", "tests/test_config.py",
               "tests/test_forwarding.py", "tests/test_window.py"]
THOROUGH_FILES = QUICK_FILES + ["tests/test_halide_ops.py", "tests/test_range_analysis.py", "tests/test_examples.py",
                                "tests/test_x86.py", "tests/test_neon.py", "tests/test_parallel.py",
                                "tests/test_externs.py", "tests/test_precision.py", "tests/test_typecheck.py",
                                "tests/test_bounds.py", "tests/test_im2col.py", "tests/test_metaprogramming.py",
                                "tests/asplos25/test_higher_order.py"]
# (tests/test_apps.py is left out: 15-20 minutes per run, and its procedures are too large for the bounded input domain)


def run_tests(files, workdir, repo=None, cap=6, timeout=3000, fwd=True, units=True, purity=True, max_cells=600,
              edits=False, claims=False, trace_ops="", texts=False, extra_env=None, c_units=0, heap=False, reparse=0):
    """Run each test file (optionally split into shards by -k-less item slicing) under the recorder.
    -> (records, per-file info)."""
    from .common import NCPU, REPO, MachineryError
    repo = repo or os.environ.get("EXO_TESTS_ROOT") or os.path.dirname(os.environ.get("EXO_SRC", REPO + "/src"))
    if not os.path.isdir(os.path.join(repo, "tests")):
        repo = REPO
    procs = []
    for k, f in enumerate(files):
        if not os.path.exists(os.path.join(repo, f)):
            continue
        out = os.path.join(workdir, f"testrec_{k}.ndjson")
        env = dict(os.environ)
        env.update({"TESTREC_OUT": out, "TESTREC_CAP": str(cap), "TESTREC_FWD": "1" if fwd else "0",
                    "TESTREC_UNITS": "1" if units else "0", "TESTREC_PURITY": "1" if purity else "0",
                    "TESTREC_MAX_CELLS": str(max_cells), "TESTREC_EDITS": "1" if edits else "0",
                    "TESTREC_CLAIMS": "1" if claims else "0", "TESTREC_TRACE_OPS": trace_ops,
                    "TESTREC_TEXTS": "1" if texts else "0", "TESTREC_C": str(c_units), "TESTREC_HEAP": "1" if heap else "0", "TESTREC_REPARSE": str(reparse)})
        env.update(extra_env or {})
        env.pop("PYTEST_ADDOPTS", None)
        cmd = [sys.executable, "-m", "pytest", "-q", "-x" if False else "-q", "-p", "no:cacheprovider",
               "-p", "harness.testrec", "--timeout=900", "-o", "addopts=", f]
        procs.append((f, out, subprocess.Popen(cmd, cwd=repo, env=env, stdout=subprocess.PIPE,
                                               stderr=subprocess.STDOUT, text=True)))
    recs, info = [], {}
    t0 = time.time()
    for f, out, p in procs:
        try:
            so, _ = p.communicate(timeout=max(10, timeout - (time.time() - t0)))
        except subprocess.TimeoutExpired:
            p.kill()
            so, _ = p.communicate()
            info[f] = {"timed_out": True}
        tail = so.strip().splitlines()[-1] if so.strip() else ""
        ended = False
        n = 0
        if os.path.exists(out):
            with open(out) as fh:
                for line in fh:
                    try:
                        r = json.loads(line)
                    except Exception:
                        continue
                    if r.get("kind") == "end":
                        ended = True
                        info.setdefault(f, {}).update(r)
                        continue
                    r["file"] = f
                    recs.append(r)
                    n += 1
            os.unlink(out)
        info.setdefault(f, {}).update({"rc": p.returncode, "summary": tail[-120:], "records": n, "ended": ended})
        # a test file that ran out of time contributes what it recorded so far (lost coverage, reported in the evidence)
        if not ended and not info[f].get("timed_out"):
            raise MachineryError(f"recorder did not finish on {f}:\n" + "\n".join(so.splitlines()[-15:]))
    return recs, info


def test_edges(files, workdir, cap=4, max_cells=600, fwd=False, purity=False, units=True, timeout=3000, edits=False,
               claims=False, trace_ops="", c_units=0, heap=False, reparse=0):
    """Recorded derivation edges of the repository's tests in the record format of edgecheck.decide_edges
    (prog = test id, args = ordinal of the step in its test file, facts = {}).  -> (edges, info, other records)"""
    recs, info = run_tests(files, workdir, cap=cap, fwd=fwd, units=units, purity=purity, max_cells=max_cells,
                           timeout=timeout, edits=edits, claims=claims, trace_ops=trace_ops, c_units=c_units, heap=heap, reparse=reparse)
    edges, other = [], []
    seen = set()
    for r in recs:
        if r.get("kind") != "edge":
            other.append(r)
            continue
        e = {"prog": "repo:" + r["test"], "op": r.get("op", "?"), "args": f"#{r.get('n', 0)}", "facts": {"recorded": True},
             "chain": [], "status": {"no-input": "accepted", "unprojected": "accepted",
                                     "recorder-error": "export-error"}.get(r["status"], r["status"]),
             "text_a": r.get("text_a"), "text_b": r.get("text_b"), "modset": r.get("modset"), "fwd": r.get("fwd"),
             "msg": r.get("msg"), "rec_status": r["status"]}
        if "dedupe" in r:
            # (each pytest process dedupes on its own; merge across files here)
            e["dedupe"] = r["dedupe"]
            if "unit" in r and r["dedupe"] not in seen:
                seen.add(r["dedupe"])
                e["unit"] = r["unit"]
        elif e["status"] == "accepted":
            e["status"] = "unprojected"
        edges.append(e)
    # an edge whose unit was dropped (no admissible small input, or duplicate in another file) still needs a
    # dedupe target for decide_edges: keep only those whose dedupe key has a unit
    have = {e["dedupe"] for e in edges if "unit" in e}
    for e in edges:
        if e["status"] == "accepted" and e.get("dedupe") not in have:
            e["status"] = "no-input"
    return edges, info, other


def add_test_edges(rep, tier, workdir, files=None, **kw):
    """Recorded edges of the repository's tests for a check's report (coverage bookkeeping included)."""
    import collections
    quick = tier == "quick"
    files = files or (QUICK_FILES if quick else THOROUGH_FILES)
    kw.setdefault("cap", 3 if quick else 6)
    kw.setdefault("max_cells", 300 if quick else 1500)
    edges, info, other = test_edges(files, workdir, **kw)
    st = collections.Counter(e["rec_status"] for e in edges)
    rep.cov["repo_tests"] = {"files": {f: {k: v for k, v in i.items() if k in ("rc", "summary", "records", "edges", "overhead_s", "timed_out")}
                                       for f, i in info.items()},
                             "recorded_steps": len(edges), "by_status": dict(st),
                             "distinct_projected": sum(1 for e in edges if "unit" in e),
                             "tests_with_steps": len({e["prog"] for e in edges})}
    rep.add_cov(recorded_test_steps=len(edges))
    return edges, other
