"""C02 Generated C computes what the procedure means (ExoCTrace: compiled-C executions validated
against spec/ExoMachine.tla in value mode Z)."""
from __future__ import annotations

import collections

from ..common import Report, main_wrapper, scratch, eff_seed, MachineryError
from ..cunits import run_cjobs
from ..machine import run_units
from ..edgecheck import verdict_class
from .args import parse

MODULES = ["harness.corpus.basic", "harness.corpus.memory", "harness.corpus.nameclash", "harness.corpus.detlib",
           "harness.corpus.indexmat"]


def cfacts(rec, v):
    """defect-class facts of a C disagreement"""
    c = rec["info"]["c_text"]
    import re
    return {"fact_c_uses_mod": bool(re.search(r"[^%]%[^%sd.0-9lg\"]", c)), "fact_has_window": "window" in rec["unit"]["features"]}


def main():
    a = parse()
    rep = Report("C02", a.tier, "translation_validation")
    quick = a.tier == "quick"
    sel = (lambda m, p: a.only in p.name()) if a.only else None
    with scratch() as d:
        recs = run_cjobs(MODULES, eff_seed(), cap=10 if quick else 40, workdir=d,
                         derived=3 if quick else 25, select=sel)
        if not a.only:
            # the final procedure of each test of the repository's own test files (host-realisable ones), recorded
            from ..testrec import add_test_edges
            _, other = add_test_edges(rep, a.tier, d, units=False, fwd=False, purity=False, c_units=30 if quick else 400)
            trecs = [o for o in other if o.get("kind") == "cunit"]
            rep.add_cov(repo_test_final_procedures_compiled=sum(1 for o in trecs if o.get("status") == "compiled"))
            recs += trecs
        units = [r["unit"] for r in recs if r["status"] == "compiled"]
        owners = [r for r in recs if r["status"] == "compiled"]
        res = run_units(units, d, stepbound=8000 if quick else 60000)
    stat = collections.Counter(r["status"] for r in recs)
    n_exec = n_agree = 0
    for k, (u, rec) in enumerate(zip(units, owners)):
        cnt = collections.Counter()
        first = {}
        for i in range(len(u["inputs"])):
            v = res.verdicts[(k, i)]
            cls = ("ok" if v == "ok" else "skip" if v == "A-invalid" else "c-differs" if v == "c-differs"
                   else "c-event" if v.startswith("c-event:") else "machine-trap" if v.startswith("A-trap") else "inconclusive")
            if v == "c-event:nonint":
                cls = "inconclusive"
            cnt[cls] += 1
            first.setdefault(cls, (i, v))
        n_exec += sum(cnt[c] for c in ("ok", "c-differs", "c-event"))
        n_agree += cnt["ok"]
        rec["verdicts"] = dict(cnt)
        for cls in ("c-differs", "c-event"):
            if cls in cnt:
                i, v = first[cls]
                sig = {"class": cls, "detail": v, "prog": rec["prog"], "how": rec["how"].split("(")[0]}
                sig.update(cfacts(rec, v))
                rep.violation(sig, {"prog": rec["prog"], "how": rec["how"], "proc": rec["text"], "verdict": v,
                                    "input": u["inputs"][i], "c": rec["info"]["c_text"], "msgs": rec["info"]["msgs"],
                                    "counts": dict(cnt)})
        rep.sample({"prog": rec["prog"], "how": rec["how"], "verdicts": dict(cnt)})
    rep.add_cov(programs=len(units), disagreements_checked=n_exec, executions_agreeing=n_agree,
                states=res.states, transitions=res.generated,
                backend_rejected=stat["compile-error"], export_skipped=stat["export-error"], timeouts=stat["timeout"],
                evaluations=n_exec, distinct_nontrivial=len(units))
    rep.cov["rule"] = ("one program = one procedure (corpus as written, or after a randomly chosen accepted schedule) compiled by the "
                       "real backend, built with gcc -O1 + ASan/UBSan, executed on each admissible input of the bounded domain "
                       "(dense and offset/stride-2 windows, negative index arguments); every execution's complete final state "
                       "(all argument cells incl. cells outside windows, scalars, context struct) is one trace event validated by TLC; the "
                       "final procedure of every test of the repository's own test files that the host can realise is treated the same way")
    rep.cov["compile_errors"] = sorted({(r["prog"], r.get("exc")) for r in recs if r["status"] == "compile-error"})[:20]
    rep.assumptions += ["value mode Z: small integer data, exactly representable in every precision used",
                        "gcc 12 -O1 with sanitizers is the 'ordinary C compiler'"]
    return rep.finish()


if __name__ == "__main__":
    main_wrapper(main)
