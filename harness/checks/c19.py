"""C19 Signature- and annotation-changing utilities keep the loop nest (ExoEquiv with input/output relations)."""
from __future__ import annotations

from ..common import Report, main_wrapper, scratch, eff_seed
from ..edgecheck import decide_edges
from .. import utilunits
from .args import parse

MODULES = ["harness.corpus.basic", "harness.corpus.configs", "harness.corpus.nameclash", "harness.corpus.dimwin"]


def main():
    a = parse()
    rep = Report("C19", a.tier, "model_checking")
    quick = a.tier == "quick"
    sel = (lambda m, p: a.only in p.name()) if a.only else None
    edges = utilunits.run(MODULES, eff_seed(), cap=10 if quick else 40, select=sel, max_cands=40 if quick else None)
    with scratch() as d:
        decide_edges(rep, edges, {"differ", "uninit", "cfg", "safety", "binvalid"},
                     stepbound=6000 if quick else 50000, workdir=d)
    rep.cov["rule"] = ("one case = one accepted utility call: partial_eval on every singleton/pair of control arguments x value grid "
                       "(related input: those arguments fixed / removed), transpose of every 2-D argument (cells permuted on input "
                       "and output, or strides swapped for windows), add_assertion (new-valid implies old-valid and same result), "
                       "rename/make_instr/set_precision/set_memory/set_window/parallelize_loop (identity); checked by TLC on all "
                       "bounded inputs in value mode F (real-number semantics)")
    rep.assumptions += ["precision changes are judged in real-number semantics (mode F), as the property states"]
    return rep.finish()


if __name__ == "__main__":
    main_wrapper(main)
