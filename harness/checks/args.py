import argparse, os


def parse():
    ap = argparse.ArgumentParser()
    ap.add_argument("--tier", default=os.environ.get("VERIF_TIER", "quick"), choices=["quick", "thorough"])
    ap.add_argument("--replay", default=None)
    ap.add_argument("--only", default=None, help="restrict to corpus procs / ops matching this substring (debug)")
    a = ap.parse_args()
    # quick = fixed reproducible core; thorough = exploration driven by VERIF_SEED (see common.eff_seed)
    if "VERIF_EFF_SEED" not in os.environ:
        from ..common import seed
        os.environ["VERIF_EFF_SEED"] = "0" if a.tier == "quick" else str(seed())
    return a
