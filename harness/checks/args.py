import argparse, os
def parse():
    ap = argparse.ArgumentParser()
    ap.add_argument("--tier", default=os.environ.get("VERIF_TIER", "quick"), choices=["quick", "thorough"])
    ap.add_argument("--replay", default=None)
    ap.add_argument("--only", default=None, help="restrict to corpus procs / ops matching this substring (debug)")
    return ap.parse_args()
