"""C01 Scheduling rewrites preserve procedure semantics (ExoEquiv on derivation edges)."""
from __future__ import annotations

from ..common import Report, main_wrapper, scratch
from ..edgecheck import collect_edges, decide_edges
from ..testrec import add_test_edges
from .args import parse

MODULES = ["harness.corpus.basic", "harness.corpus.depmat"]


def main():
    a = parse()
    rep = Report("C01", a.tier, "model_checking")
    quick = a.tier == "quick"
    sel = (lambda m, p: a.only in p.name()) if a.only else None
    edges = collect_edges(MODULES, a.tier, cap=12 if quick else 48, depth2=1 if quick else 6,
                          select=sel, nshards=4)
    # buffer-dimension operations versus windows (corpus D), and name clashes (corpus N)
    DIM_OPS = ["rearrange_dim", "expand_dim", "divide_dim", "mult_dim", "resize_dim", "unroll_buffer", "lift_alloc",
               "autolift_alloc", "sink_alloc", "stage_mem", "inline_window", "delete_buffer", "reuse_buffer", "simplify"]
    edges += collect_edges(["harness.corpus.dimwin"], a.tier, cap=2 if quick else 6, ops=DIM_OPS, depth2=0 if quick else 2,
                           select=sel, nshards=2)
    edges += collect_edges(["harness.corpus.nameclash"], a.tier, cap=8 if quick else 32, depth2=0 if quick else 3,
                           select=sel, nshards=2)
    # control-flow rewrites around configuration-dependent guards (corpus C, cg_* matrix)
    edges += collect_edges(["harness.corpus.configs"], a.tier, cap=6 if quick else 24,
                           ops=["fuse", "fission", "lift_scope", "reorder_stmts", "specialize", "eliminate_dead_code", "merge_writes"],
                           depth2=0 if quick else 2, select=(lambda m, p: p.name().startswith("cg_") and (not a.only or a.only in p.name())),
                           nshards=2)
    with scratch() as d:
        if not a.only:
            # the repository's own tests, recorded: every derivation step they perform is an edge too
            edges += add_test_edges(rep, a.tier, d)[0]
        decide_edges(rep, edges, {"differ", "uninit", "cfg"}, stepbound=6000 if quick else 50000, workdir=d,
                     coverage=True)
    rep.cov["rule"] = ("one case = one derivation edge (corpus procedure, real primitive, cursor, arguments) accepted by exo; "
                       "distinct = distinct derived IR (canonical hash), non-trivial = derived IR differs from source; "
                       "each run on every admissible input of the bounded domain by TLC (ExoMachine phases A/B)")
    rep.assumptions += ["value mode F: equality of final states as polynomials over Z_32749 at random generic points",
                        "inputs bounded as DESIGN 5.3; step bound per behaviour"]
    return rep.finish()


if __name__ == "__main__":
    main_wrapper(main)
