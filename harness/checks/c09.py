"""C09 Parallel loops that compile are race-free (RaceFree monitor of ExoMachine: per-iteration
read/write/reduce location sets, checked at the end of every iteration of every parallel loop)."""
from __future__ import annotations

import collections

from ..common import Report, main_wrapper, scratch, eff_seed
from ..machine import run_units, trap_kind
from .. import parunits
from .args import parse

MODULES = ["harness.corpus.parallel", "harness.corpus.depmat", "harness.corpus.basic", "harness.corpus.configs"]


def main():
    a = parse()
    rep = Report("C09", a.tier, "model_checking")
    quick = a.tier == "quick"
    sel = (lambda m, p: a.only in p.name()) if a.only else None
    recs = parunits.run(MODULES, eff_seed(), cap=12 if quick else 48, select=sel, max_targets=8 if quick else None)
    stat = collections.Counter(r["status"] for r in recs)
    units = [r["unit"] for r in recs if r["status"] == "compiled"]
    owners = [r for r in recs if r["status"] == "compiled"]
    with scratch() as d:
        res = run_units(units, d, stepbound=8000 if quick else 60000)
    n_in = 0
    for k, (u, rec) in enumerate(zip(units, owners)):
        cnt = collections.Counter()
        first = {}
        for i in range(len(u["inputs"])):
            v = res.verdicts[(k, i)]
            cls = ("ok" if v == "ok" else "skip" if v == "A-invalid" else "race" if trap_kind(v) == "race"
                   else "order" if v.startswith(("differ:", "uninit:", "cfg-differ:")) else "other")
            cnt[cls] += 1
            first.setdefault(cls, (i, v))
        n_in += len(u["inputs"])
        rec["verdicts"] = dict(cnt)
        if "race" in cnt:
            i, v = first["race"]
            rep.violation({"class": "race", "prog": rec["prog"], "how": rec["how"].split("[")[0].split("(")[0]},
                          {"prog": rec["prog"], "how": rec["how"], "proc": rec["text"], "verdict": v,
                           "input": u["inputs"][i], "counts": dict(cnt)})
        if "order" in cnt:
            i, v = first["order"]
            rep.violation({"class": "order-dependent", "prog": rec["prog"], "how": rec["how"].split("[")[0].split("(")[0]},
                          {"prog": rec["prog"], "how": rec["how"], "proc": rec["text"], "verdict": v,
                           "input": u["inputs"][i], "counts": dict(cnt)})
        rep.sample({"prog": rec["prog"], "how": rec["how"], "verdicts": dict(cnt)})
    rep.add_cov(iteration_orders_explored=sum(res.terminals.values()),
                inputs_with_several_final_states=sum(1 for v in res.terminals.values() if v > 1),
                order_branching_transitions=max(0, res.generated - res.states))
    rep.add_cov(states=res.states, transitions=res.generated, traces_validated_against_impl=len(units),
                programs_with_par_compiled=len(units), programs_with_par_rejected_by_backend=stat["backend-rejected"],
                evaluations=n_in, distinct_nontrivial=len(units))
    rep.cov["rule"] = ("one case = a procedure containing par loops (written so, or obtained by parallelize_loop at every loop and "
                       "pairs of loops of the corpus) that the real backend compiles; TLC runs it on every bounded input with the "
                       "RaceFree monitor: at the end of each iteration of each parallel loop instance (any depth, also inside "
                       "callees) its write/reduce set must be disjoint from every other iteration's read/write/reduce set; then (ExoPar "
                       "mode) TLC runs the same procedure again with the iterations of every parallel loop in every order (all "
                       "permutations up to 3 iterations, identity/reversal/rotation beyond) and every final state must equal the "
                       "sequential one")
    rep.assumptions += ["sequential execution order is used to collect per-iteration access sets", "bounded inputs"]
    return rep.finish()


if __name__ == "__main__":
    main_wrapper(main)
