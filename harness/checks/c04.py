"""C04 Scheduling never breaks safety or well-formedness: Safe + WellScoped + definedness on derived
procedures (ExoMachine/ExoProgram), and compile admissibility of a sample of derived procedures."""
from __future__ import annotations

from ..common import Report, main_wrapper, scratch
from ..edgecheck import collect_edges, decide_edges
from ..testrec import add_test_edges
from .args import parse

MODULES = ["harness.corpus.basic", "harness.corpus.depmat"]


def main():
    a = parse()
    rep = Report("C04", a.tier, "model_checking")
    quick = a.tier == "quick"
    sel = (lambda m, p: a.only in p.name()) if a.only else None
    edges = collect_edges(MODULES, a.tier, cap=10 if quick else 40, depth2=1 if quick else 6,
                          select=sel, nshards=4)
    # buffer-dimension operations versus windows (corpus D), and name clashes (corpus N)
    DIM_OPS = ["rearrange_dim", "expand_dim", "divide_dim", "mult_dim", "resize_dim", "unroll_buffer", "lift_alloc",
               "autolift_alloc", "sink_alloc", "stage_mem", "inline_window", "delete_buffer", "reuse_buffer", "simplify"]
    edges += collect_edges(["harness.corpus.dimwin"], a.tier, cap=2 if quick else 6, ops=DIM_OPS, depth2=0 if quick else 2,
                           select=sel, nshards=2)
    edges += collect_edges(["harness.corpus.nameclash"], a.tier, cap=8 if quick else 32, depth2=0 if quick else 3,
                           select=sel, nshards=2)
    with scratch() as d:
        if not a.only:
            # the repository's own tests, recorded: every derivation step they perform is an edge too
            edges += add_test_edges(rep, a.tier, d)[0]
        decide_edges(rep, edges, {"safety", "uninit", "scope"}, stepbound=6000 if quick else 50000, workdir=d)
    rep.cov["rule"] = ("one case = one accepted derivation edge; the derived procedure must be statically WellScoped "
                       "(ExoProgram!WellScoped evaluated by TLC), must raise no safety trap (out-of-bounds, callee assertion, "
                       "non-positive size, shape mismatch, aliased arguments, negative trip count, unbound/rebound symbol) on any "
                       "admissible input on which the source is safe, and must not produce an uninitialised value where the "
                       "source produced a defined one")
    rep.assumptions += ["bounded inputs (DESIGN 5.3)", "value mode F"]
    return rep.finish()


if __name__ == "__main__":
    main_wrapper(main)
