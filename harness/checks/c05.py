"""C05 replace only substitutes true instances of the callee: ExoEquiv(p, replace(p, block, f)) with the
call executing f's Exo body (callee assertions / sizes / shapes / aliasing checked at the new call
site by the machine), and ExoEquiv(p, inline(replace(...)))."""
from __future__ import annotations

from ..common import Report, main_wrapper, scratch
from ..edgecheck import collect_edges, decide_edges
from .args import parse

MODULES = ["harness.corpus.replace", "harness.corpus.replacegen"]


def main():
    a = parse()
    rep = Report("C05", a.tier, "model_checking")
    quick = a.tier == "quick"
    sel = (lambda m, p: a.only in p.name()) if a.only else None
    edges = collect_edges(MODULES, a.tier, cap=24 if quick else 96, ops=["replace", "replace_all"],
                          ops2=["inline"], depth2=3, select=sel, nshards=4)
    with scratch() as d:
        decide_edges(rep, edges, {"differ", "uninit", "cfg", "safety"}, stepbound=8000 if quick else 60000, workdir=d)
    rep.cov["rule"] = ("one case = a successful replace(p, block, f) / replace_all over every statement and block (also blocks "
                       "longer than f's body) of 14 kernels x 9 callees/instructions (window, size, index, bool, scalar arguments, "
                       "stride and range assertions); TLC runs p and the result (the call executes f's Exo body; the machine traps "
                       "on violated callee assertions, non-positive sizes, shape mismatch, aliased arguments) on all bounded "
                       "inputs, and also the result with the new call inlined again")
    rep.assumptions += ["bounded inputs incl. strided windows"]
    return rep.finish()


if __name__ == "__main__":
    main_wrapper(main)
