"""C07 Scheduling is pure: recorded sessions (successful and raising operations, queries, prints,
compilation) validated against the frame conditions Immutable / CursorsStable of spec/SessionTrace.tla."""
from __future__ import annotations

import collections
import json
import os

from ..common import Report, main_wrapper, scratch, eff_seed, run_tlc, MachineryError, tlc_failure_excerpt
from .. import purity
from ..testrec import add_test_edges
from .args import parse

MODULES = ["harness.corpus.basic", "harness.corpus.shapes", "harness.corpus.configs", "harness.corpus.memory"]


def main():
    a = parse()
    rep = Report("C07", a.tier, "model_checking")
    quick = a.tier == "quick"
    sel = (lambda m, p: a.only in p.name()) if a.only else None
    recs = purity.run(MODULES, eff_seed(), sessions=1 if quick else 12, length=12 if quick else 30, select=sel,
                      sweep=80 if quick else 100000, stability=14 if quick else 60)
    if not a.only:
        recs += purity.run_module_stability(MODULES, eff_seed(), per_proc=3 if quick else 8)
    with scratch() as d:
        if not a.only:
            # the repository's own tests as sessions: one event per Procedure they create, one when the test ends
            _, other = add_test_edges(rep, a.tier, d, fwd=False, units=False, purity=True)
            n_ts = 0
            for o in other:
                if o.get("kind") == "session":
                    n_ts += 1
                    recs.append({"prog": "repo:" + o["file"] + "::" + o["test"].split("::")[-1], "session": "test",
                                 "trace": o["trace"], "meta": o["meta"], "texts": [""]})
            rep.add_cov(repo_test_sessions=n_ts)
        path = os.path.join(d, "sessions.json")
        with open(path, "w") as f:
            json.dump([r["trace"] for r in recs], f)
        r = run_tlc("SessionTrace", "SessionTrace.cfg", d, env={"EXO_SESSIONS": path}, timeout=2400)
        if not r.ok:
            raise MachineryError("TLC failed on SessionTrace:\n" + tlc_failure_excerpt(r.stdout))
    far = {}
    for rec in r.records:
        if "t" in rec and (rec["t"] not in far or rec["l"] > far[rec["t"]]["l"]):
            far[rec["t"]] = rec
    ops = collections.Counter()
    n_events = n_fail = 0
    for k, s in enumerate(recs, start=1):
        n_events += len(s["meta"])
        for m in s["meta"]:
            ops[(m["op"], m["ok"])] += 1
            n_fail += 0 if m["ok"] else 1
        v = far.get(k)
        if v is None:
            raise MachineryError(f"no verdict for session {k}")
        if v["d"] != "accepted":
            ev = s["meta"][v["l"] - 1] if v["l"] - 1 < len(s["meta"]) else {}
            rep.violation({"clause": v["d"], "op": ev.get("op"), "ok": ev.get("ok")},
                          {"prog": s["prog"], "session": s["session"], "rejected_event_index": v["l"], "event": ev,
                           "changed_handles_and_cursors": v["ch"], "history": s["meta"][: v["l"]],
                           "source": s["texts"][0]})
    if recs:
        rep.sample({"prog": recs[0]["prog"], "operations": [(m["op"], m["ok"], m["exc"]) for m in recs[0]["meta"]]})
    rep.add_cov(states=r.distinct, transitions=r.generated, traces_validated_against_impl=len(recs),
                sessions=len(recs), operations=n_events, failing_operations=n_fail,
                distinct_op_outcomes=len(ops), evaluations=n_events, distinct_nontrivial=len(recs))
    rep.cov["rule"] = ("one case = a recorded session on a corpus procedure: random candidates of the full primitive grid applied "
                       "to randomly chosen live procedures (no pre-filtering, so about half of the operations raise, some after "
                       "partial rewriting), interleaved with prints, forwards and (every third session) C generation; after every "
                       "operation every live Procedure (deep structural fingerprint incl. all lists and callees, printed text, C "
                       "text) and every live cursor (path, denoted node) is re-fingerprinted; TLC consumes an event only if "
                       "Immutable, CursorsStable and 'a failing operation defines nothing' hold; plus one session per test of the "
                       "repository's own test files (every Procedure the test creates re-fingerprinted after each creation and at "
                       "test end) and one per file for the procedures created at import time; plus one stability session per corpus "
                       "procedure: the outcomes (printed result / kind of error) of a sample of calls on it are handles, unrelated "
                       "(mostly refused) operations on other procedures follow, and the same calls must then give the same outcomes")
    rep.assumptions += ["module-level caches are observed only through later results"]
    return rep.finish()


if __name__ == "__main__":
    main_wrapper(main)
