"""C06 Forwarded cursors denote the same code or are invalid.
 (1) spec/CursorEdit.tla exhaustive: FwdSound / FwdComplete for all trees <= N nodes x all elementary
     edits x all node/gap/block cursors (TLC);
 (2) replay of every explored transition on real internal_cursors objects: new tree and every
     forwarded cursor must equal the spec's (implementation conformance);
 (3) forwarding through real scheduling operations (all primitives on shape programs, chains,
     implicit forwarding), judged by the spec's label oracle;
 (4) the repository's own tests, recorded: for every derivation step they perform, every node/gap/block
     cursor of the source procedure is forwarded and judged by the same oracle with node identity as the
     label (a statement object carried over into the derived tree is the same statement)."""
from __future__ import annotations

import collections

from ..common import Report, main_wrapper, scratch, eff_seed, run_tlc, MachineryError, tlc_failure_excerpt
from ..replay_cursor import replay
from .. import fwdcheck
from ..testrec import add_test_edges
from .args import parse

MODULES = ["harness.corpus.shapes"]
MODULES_THOROUGH = ["harness.corpus.shapes", "harness.corpus.basic"]


def main():
    a = parse()
    rep = Report("C06", a.tier, "model_checking")
    quick = a.tier == "quick"
    # ---- (1) + (2)
    with scratch() as d:
        r = run_tlc("CursorEdit", "CursorEdit.cfg", d, timeout=900)
        if r.violated in ("FwdSound", "FwdComplete"):
            rep.violation({"layer": "spec", "invariant": r.violated}, {"tlc": r.stdout[-5000:]})
        elif not r.ok:
            raise MachineryError("TLC failed on CursorEdit:\n" + tlc_failure_excerpt(r.stdout))
        states, trans = r.distinct, r.generated
        recs = r.records
        if not quick:
            r5 = run_tlc("CursorEdit", "CursorEdit5.cfg", d, timeout=1500, want_records=False)
            if r5.violated:
                rep.violation({"layer": "spec", "invariant": r5.violated, "n": 5}, {"tlc": r5.stdout[-5000:]})
            elif not r5.ok:
                raise MachineryError("TLC failed on CursorEdit5:\n" + tlc_failure_excerpt(r5.stdout))
            states += r5.distinct
            trans += r5.generated
        # the excluded edit class (move into a later sibling subtree of an ancestor) is still replayed
        rall = run_tlc("CursorEdit", "CursorEditAll.cfg", d, timeout=900)
        if not rall.ok:
            raise MachineryError("TLC failed on CursorEditAll:\n" + tlc_failure_excerpt(rall.stdout))
        recs_all = rall.records
    kinds = collections.Counter()
    n_cur = 0
    seen = set()
    for rec in recs + recs_all:
        key = str(rec["tree"]) + str(rec["edit"])
        if key in seen:
            continue
        seen.add(key)
        kinds[rec["edit"]["k"]] += 1
        n_cur += len(rec["fw"])
        mism = replay(rec)
        if mism:
            rep.violation({"layer": "replay", "edit": rec["edit"]["k"], "first": mism[0].split(":")[0][:60]},
                          {"tree": rec["tree"], "edit": rec["edit"], "mismatches": mism[:5]})
    rep.add_cov(states=states, transitions=trans, replayed_transitions=len(seen), replayed_cursor_images=n_cur)
    rep.cov["replayed_by_edit_kind"] = dict(kinds)
    # ---- (3)
    sel = (lambda m, p: a.only in p.name()) if a.only else None
    edges = fwdcheck.run(MODULES if quick else MODULES_THOROUGH, eff_seed(), nshards=6, select=sel,
                         depth2=1 if quick else 4, implicit=0.25 if quick else 1.0, edit_cap=30 if quick else 400)
    edit_recs = []
    edit_stats = collections.Counter()
    for e in edges:
        if e["status"] == "edits":
            edit_recs += e["edits"]
            for k, v in e["edit_stats"].items():
                if isinstance(v, int):
                    edit_stats[k] += v
    edges = [e for e in edges if e["status"] != "edits"]
    tot = collections.Counter()
    perop = collections.defaultdict(collections.Counter)
    n_acc = 0
    for e in edges:
        perop[e["op"]][e["status"]] += 1
        if e["status"] != "accepted":
            continue
        n_acc += 1
        for k, v in e.get("counts", {}).items():
            tot[k] += v
        for k, v in e.get("chain_counts", {}).items():
            tot["chain_" + k] += v
        tot["implicit_checked"] += e.get("implicit_checked", 0)
        tot["chains"] += e.get("chains", 0)
        for v in e.get("viols", []):
            rep.violation({"layer": "primitive", "op": e["op"], "verdict": v["verdict"], "ckind": v["cursor"].split()[0],
                           "detail": v["detail"].split(":")[0][:40], "fact_guard": e["facts"].get("guard")},
                          {"prog": e["prog"], "op": e["op"], "args": e["args"], "cursor": v, "text_a": e["text_a"],
                           "text_b": e["text_b"]})
        for v in e.get("chain_viols", []):
            rep.violation({"layer": "chain", "op": e["op"], "verdict": v["verdict"], "ckind": v["cursor"].split()[0],
                           "second": v["second"].split("(")[0], "detail": v["detail"].split(":")[0][:40],
                           "fact_guard": e["facts"].get("guard")},
                          {"prog": e["prog"], "op": e["op"], "args": e["args"], "cursor": v, "text_a": e["text_a"],
                           "text_b": e["text_b"]})
        for v in e.get("implicit_mismatch", []):
            rep.violation({"layer": "implicit", "op": e["op"], "second": v["op"], "fact_guard": e["facts"].get("guard")},
                          {"prog": e["prog"], "op": e["op"], "args": e["args"], "mismatch": v, "text_b": e["text_b"]})
        if len(rep.cov["samples"]) < 5 and e.get("counts"):
            rep.sample({"prog": e["prog"], "op": e["op"], "args": e["args"], "cursor_verdicts": e["counts"]})
    # ---- (4)
    n_rec = 0
    if not a.only:
        with scratch() as d:
            tedges, tother = add_test_edges(rep, a.tier, d, fwd=True, units=False, purity=False, edits=True)
            for o in tother:
                if o.get("kind") == "edits":
                    edit_recs += o["edits"]
                    for k, v in o["edit_stats"].items():
                        if isinstance(v, int):
                            edit_stats[k] += v
        rtot = collections.Counter()
        for e in tedges:
            f = e.get("fwd") or {}
            if "error" in f:
                rtot["oracle_error"] += 1
                continue
            if f.get("cursors"):
                n_rec += 1
            for k, v in f.get("counts", {}).items():
                rtot[k] += v
            for v in f.get("viols", []):
                rep.violation({"layer": "repo-test", "op": e["op"], "verdict": v["verdict"], "ckind": v["cursor"].split()[0],
                               "detail": v["detail"].split(":")[0][:40]},
                              {"test": e["prog"], "op": e["op"], "step": e["args"], "cursor": v, "text_a": e["text_a"],
                               "text_b": e["text_b"]})
        rep.cov["repo_test_cursor_verdicts"] = dict(rtot)
        for k, v in rtot.items():
            tot[k] += v
        rep.add_cov(repo_test_edges_with_carried_statements=n_rec)
    n_acc += n_rec
    # ---- (5) elementary edits recorded in (3) and (4), validated against CursorEdit by TLC
    with scratch() as d:
        verdicts, rt = fwdcheck.validate_edits(edit_recs, d)
    ekinds = collections.Counter()
    n_dev = n_imgs = 0
    for rec, v in zip(edit_recs, verdicts):
        ekinds[rec["edit"]["k"]] += 1
        n_imgs += len(rec["fw"])
        dangling = [f for f in rec["fw"] if f["r"].get("t") == "!"]
        if v["isound"] or dangling:
            rep.violation({"layer": "edit-trace", "edit": rec["edit"]["k"],
                           "verdict": "dangling" if dangling else "unsound-image"},
                          {"context": rec["ctx"], "edit": rec["edit"], "tree": rec["tree"], "tlc": v,
                           "example": (dangling or [rec["fw"][v["ifirst"] - 1] if v.get("ifirst") else None])[0]})
        elif not v["tree"] or v["fwd"] or v["sound"]:
            n_dev += 1  # the code's step is sound but is not the spec's step: a deviation of the model, reported as such
            rep.notes.append({"edit-trace deviation": rec["ctx"], "edit": rec["edit"]["k"], "tlc": v}) if n_dev <= 5 else None
    if rt is not None:
        states += rt.distinct
        trans += rt.generated
    rep.add_cov(states=rt.distinct if rt else 0, transitions=rt.generated if rt else 0,
                recorded_elementary_edits=len(edit_recs), recorded_edit_cursor_images=n_imgs,
                edit_trace_deviations=n_dev)
    rep.cov["recorded_edits_by_kind"] = dict(ekinds)
    rep.cov["edit_recorder"] = dict(edit_stats)
    n_acc += len(edit_recs)
    rep.add_cov(traces_validated_against_impl=len(seen) + n_acc, primitive_edges=n_acc,
                evaluations=sum(v for k, v in tot.items() if not k.startswith(("implicit", "chains"))),
                distinct_nontrivial=len(seen) + n_acc)
    rep.cov["forwarded_cursor_verdicts"] = dict(tot)
    rep.cov["per_op"] = {k: dict(v) for k, v in sorted(perop.items())}
    rep.cov["rule"] = ("(1) TLC: all labelled trees <= 4 (thorough: 5) nodes with for/if(body,orelse) nesting x insert/replace/"
                       "delete/wrap/move x every node, gap and block cursor; (2) each explored transition replayed on real "
                       "internal_cursors objects; (3) every accepted candidate of the full primitive x cursor x argument grid "
                       "on shape programs: all node/gap/block cursors forwarded with the real Procedure.forward and judged by "
                       "label identity; chains of two operations (across vs step-wise), implicit forwarding by insert_pass / "
                       "unroll_loop / reorder_stmts; (4) every derivation step performed by the repository's own tests (recorded by a "
                       "pytest plugin, no source change): all cursors of the source forwarded, label = identity of carried-over nodes; "
                       "(5) every elementary edit (insert/replace/delete/wrap/move) that the primitives of (3) and (4) perform, recorded "
                       "by wrappers around internal_cursors with the tree before, the tree after and the images of up to 160 cursors "
                       "under the returned forwarding function: TLC (CursorEditTrace) takes CursorEdit's own step and requires tree "
                       "agreement, equal forwarding and CursorEdit!Sound on the real-sized tree")
    rep.assumptions += ["block cursors: edge criterion of DESIGN C06; lossy hulls are informational",
                        "expression cursors are outside the property"]
    return rep.finish()


if __name__ == "__main__":
    main_wrapper(main)
