"""C12 simplify preserves the value of every index expression (ExoAccessTrace: phase B must replay
phase A's access/allocation trace and end in the same state)."""
from __future__ import annotations

from ..common import Report, main_wrapper, scratch
from ..edgecheck import collect_edges, decide_edges
from .args import parse

MODULES = ["harness.corpus.indexgen", "harness.corpus.indexmat", "harness.corpus.basic"]


def main():
    a = parse()
    rep = Report("C12", a.tier, "model_checking")
    quick = a.tier == "quick"
    sel = (lambda m, p: a.only in p.name()) if a.only else None
    # (1) simplify applied directly to every corpus procedure
    edges = collect_edges(MODULES, a.tier, cap=24 if quick else 96, ops=["simplify"], select=sel, nshards=1,
                          trace=True)
    # (2) simplify applied after every other accepted primitive (index normalisation of divided /
    #     cut / shifted / staged loops): first steps are only carriers here
    first_ops = ["divide_loop", "cut_loop", "shift_loop", "mult_loops", "unroll_loop", "stage_mem",
                 "resize_dim", "expand_dim", "divide_dim", "mult_dim", "fission", "fuse", "join_loops",
                 "specialize", "inline", "inline_window", "bind_expr", "divide_with_recompute", "add_loop"]
    chain = collect_edges(["harness.corpus.basic"], a.tier, cap=16 if quick else 48, ops=first_ops, ops2=["simplify"],
                          depth2=1, select=sel, nshards=4, trace=True)
    n_first = 0
    for e in chain:
        if e["op"] != "simplify":
            n_first += 1
            if e["status"] == "accepted":
                e["status"] = "carrier"  # not evaluated here (C01 does)
                e.pop("unit", None)
    edges += chain
    with scratch() as d:
        if not a.only:
            # every simplify step the repository's own tests perform, with the access trace recorded
            from ..testrec import add_test_edges
            tedges, _ = add_test_edges(rep, a.tier, d, trace_ops="simplify")
            edges += [e for e in tedges if e["op"] == "simplify"]
        decide_edges(rep, edges, {"differ", "uninit", "safety", "trace", "cfg"},
                     stepbound=8000 if quick else 60000, workdir=d)
    rep.add_cov(first_step_carriers=n_first)
    rep.cov["rule"] = ("one case = simplify applied to a corpus procedure (generated quasi-affine index expressions with / and % "
                       "and negative intermediates, guards, shadowed iterators) or to the result of another primitive; TLC replays "
                       "the write/reduce/alloc event trace (location and shape of every event) of the source in the simplified "
                       "procedure on every admissible input and compares final states; non-trivial = simplify changed the IR; the simplify "
                       "steps performed by the repository's own tests (recorded) are judged the same way")
    rep.assumptions += ["bounded inputs n in 1..4 and literal neighbourhoods", "read locations are compared only through final values"]
    return rep.finish()


if __name__ == "__main__":
    main_wrapper(main)
