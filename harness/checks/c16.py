"""C16 find and cursor navigation are exact.
 (1) spec/CursorTree.tla: navigation coherence laws for all trees <= N nodes and all cursors (TLC) and
     replay of every navigation result on the public cursor API;
 (2) spec/Pattern.tla: matches in program order, #n selection, error when none, for all small trees
     over a statement alphabet x a pattern set (holes, bodies, sequences with holes), replayed against
     Procedure.find / find_all; plus find_loop / find_alloc_or_arg shorthands on the corpus."""
from __future__ import annotations

import importlib

from ..common import Report, main_wrapper, scratch, run_tlc, MachineryError, tlc_failure_excerpt
from .. import replay_nav, replay_pattern
from .args import parse

LAWS = ("NextPrevInverse", "EdgesInvalid", "AnchorInverse", "ParentChild", "BlockCoherence")


def shorthand_checks(rep):
    """find_loop('i #n') / find_alloc_or_arg('x') must agree with the expanded patterns"""
    import exo.API_cursors as C
    from ..gen_schedules import walk_stmts
    n = 0
    for m in ("harness.corpus.shapes", "harness.corpus.basic", "harness.corpus.memory"):
        mod = importlib.import_module(m)
        for p in mod.PROCS:
            loops = {}
            allocs = {}
            for s, d, path in walk_stmts(p.body()):
                if isinstance(s, C.ForCursor):
                    loops.setdefault(s.name(), []).append(s)
                if isinstance(s, C.AllocCursor):
                    allocs.setdefault(s.name(), []).append(s)
            for name, lst in loops.items():
                for k, want in enumerate(lst):
                    n += 1
                    try:
                        got = p.find_loop(f"{name} #{k}")
                        ok = got._impl._path == want._impl._path
                    except Exception as e:
                        ok, got = False, type(e).__name__
                    if not ok:
                        rep.violation({"layer": "shorthand", "what": "find_loop"},
                                      {"proc": str(p), "pattern": f"{name} #{k}", "want": str(want._impl._path)})
                n += 1
                try:
                    p.find_loop(f"{name} #{len(lst)}")
                    rep.violation({"layer": "shorthand", "what": "find_loop-beyond"}, {"proc": str(p), "name": name})
                except Exception:
                    pass
            for name, lst in allocs.items():
                n += 1
                try:
                    got = p.find_alloc_or_arg(name)
                    ok = got._impl._path == lst[0]._impl._path
                except Exception:
                    ok = False
                if not ok:
                    rep.violation({"layer": "shorthand", "what": "find_alloc_or_arg"}, {"proc": str(p), "name": name})
            for a in p.args():
                n += 1
                got = p.find_alloc_or_arg(a.name())
                if not isinstance(got, C.ArgCursor) or got.name() != a.name():
                    rep.violation({"layer": "shorthand", "what": "find_alloc_or_arg(arg)"}, {"proc": str(p), "name": a.name()})
    return n


def main():
    a = parse()
    rep = Report("C16", a.tier, "model_checking")
    quick = a.tier == "quick"
    states = trans = 0
    with scratch() as d:
        r = run_tlc("CursorTree", "CursorTree.cfg" if quick else "CursorTree5.cfg", d, timeout=1500)
        if r.violated in LAWS:
            rep.violation({"layer": "nav-spec", "law": r.violated}, {"tlc": r.stdout[-4000:]})
        elif not r.ok:
            raise MachineryError("TLC failed on CursorTree:\n" + tlc_failure_excerpt(r.stdout))
        states += r.distinct
        trans += r.generated
        if not quick:
            r6 = run_tlc("CursorTree", "CursorTree6.cfg", d, timeout=2400, want_records=False)
            if r6.violated:
                rep.violation({"layer": "nav-spec", "law": r6.violated, "n": 6}, {"tlc": r6.stdout[-4000:]})
            elif not r6.ok:
                raise MachineryError("TLC failed on CursorTree6:\n" + tlc_failure_excerpt(r6.stdout))
            states += r6.distinct
            trans += r6.generated
        n_nav = n_trees = 0
        for rec in r.records:
            if "nav" not in rec:
                continue
            n_trees += 1
            n_nav += len(rec["nav"])
            mism = replay_nav.replay(rec)
            if mism:
                rep.violation({"layer": "nav-replay", "op": mism[0].split("[")[0].split("(")[0][:20]},
                              {"tree": rec["tree"], "mismatches": mism[:5]})
        rp = run_tlc("Pattern", "Pattern.cfg" if quick else "Pattern4.cfg", d, timeout=2400)
        if rp.violated in ("ProgramOrder", "Exact"):
            rep.violation({"layer": "pattern-spec", "inv": rp.violated}, {"tlc": rp.stdout[-4000:]})
        elif not rp.ok:
            raise MachineryError("TLC failed on Pattern:\n" + tlc_failure_excerpt(rp.stdout))
        states += rp.distinct
        trans += rp.generated
        n_pt = n_pres = n_match = 0
        for rec in rp.records:
            if "res" not in rec:
                continue
            n_pt += 1
            n_pres += len(rec["res"])
            n_match += sum(len(x) for x in rec["res"])
            mism = replay_pattern.replay(rec)
            if mism:
                ks = getattr(replay_pattern.replay, "last_patterns", [])
                p0 = replay_pattern.PATTERNS[ks[0]][0] if ks else {}
                rep.violation({"layer": "pattern-replay", "what": mism[0].split("(")[0], "pat_kind": p0.get("k", ""),
                               "pat_literal": bool(p0.get("v"))},
                              {"tree": rec["tree"], "mismatches": mism[:5]})
            if n_pt % 150 == 1:
                rep.sample({"tree": rec["tree"], "pattern": replay_pattern.render(replay_pattern.PATTERNS[14]),
                            "matches": rec["res"][14]})
    n_short = shorthand_checks(rep)
    rep.add_cov(states=states, transitions=trans, traces_validated_against_impl=n_trees + n_pt,
                nav_trees=n_trees, nav_results_replayed=n_nav, pattern_trees=n_pt, pattern_queries_replayed=n_pres,
                pattern_matches=n_match, shorthand_queries=n_short, evaluations=n_nav + n_pres + n_short,
                distinct_nontrivial=n_trees + n_pt)
    rep.cov["rule"] = ("navigation: all labelled trees <= 4 (thorough 5, laws 6) nodes x every node and block cursor x "
                       "parent/next/prev(1,2)/before/after/anchor/body/orelse/as_block/index/slice/expand/block before,after,"
                       "parent; patterns: all statement forests <= 3 (thorough 4) nodes over {a=1, b=2, a+=1, pass, alloc t, "
                       "for i/j, if/else} x 26 patterns (names, `_`, literals, bodies, `_` holes, sequences with holes), "
                       "find_all order, find, #n and the error past the last match")
    rep.assumptions += ["expression patterns are exercised only through literals on the right-hand side"]
    return rep.finish()


if __name__ == "__main__":
    main_wrapper(main)
