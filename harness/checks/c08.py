"""C08 Generated C is free of undefined behaviour and leaks: (1) HeapOK + Safe monitors of
ExoMachine on the IR after the real MemoryAnalysis (Free statements), (2) ExoCTrace with the C built
under ASan/UBSan/LSan and -Werror=discarded-qualifiers: abort / cc_error events are not behaviours
of the specification."""
from __future__ import annotations

import collections

from ..common import Report, main_wrapper, scratch, eff_seed
from ..cunits import run_cjobs
from ..machine import run_units, trap_kind
from .args import parse

MODULES = ["harness.corpus.memory", "harness.corpus.basic", "harness.corpus.indexmat"]
OPS = ["lift_alloc", "sink_alloc", "autolift_alloc", "reuse_buffer", "stage_mem", "inline_window", "expand_dim",
       "resize_dim", "divide_dim", "mult_dim", "unroll_buffer", "delete_buffer", "bind_expr", "fission", "fuse",
       "reorder_stmts", "divide_loop", "unroll_loop", "inline", "specialize", "lift_scope", "add_loop", "cut_loop"]
HEAP = {"uaf", "dfree", "leak", "dangling"}


def main():
    a = parse()
    rep = Report("C08", a.tier, "model_checking")
    quick = a.tier == "quick"
    sel = (lambda m, p: a.only in p.name()) if a.only else None
    with scratch() as d:
        recs = run_cjobs(MODULES, eff_seed(), cap=8 if quick else 32, workdir=d, derived=4 if quick else 30,
                         select=sel, ops=OPS, heap=True)
        if not a.only:
            # the final procedure of each host-realisable test of the repository's own test files (recorded)
            from ..testrec import add_test_edges
            _, other = add_test_edges(rep, a.tier, d, units=False, fwd=False, purity=False, c_units=30 if quick else 400, heap=True)
            trecs = [o for o in other if o.get("kind") == "cunit"]
            rep.add_cov(repo_test_final_procedures=sum(1 for o in trecs if o.get("status") == "compiled"))
            recs += trecs
        comp = [r for r in recs if r["status"] == "compiled"]
        cunits = [r["unit"] for r in comp]
        hunits = [r["heap_unit"] for r in comp if "heap_unit" in r]
        howners = [r for r in comp if "heap_unit" in r]
        resc = run_units(cunits, d, stepbound=8000 if quick else 60000)
        resh = run_units(hunits, d, stepbound=8000 if quick else 60000)
    stat = collections.Counter(r["status"] for r in recs)
    # (1) heap discipline of the analysed IR
    n_h = 0
    for k, (u, rec) in enumerate(zip(hunits, howners)):
        cnt = collections.Counter()
        first = {}
        for i in range(len(u["inputs"])):
            v = resh.verdicts[(k, i)]
            tk = trap_kind(v)
            cls = "ok" if v == "ok" else "skip" if v == "A-invalid" else ("heap:" + tk) if tk in HEAP else "other:" + tk
            cnt[cls] += 1
            first.setdefault(cls, (i, v))
        n_h += len(u["inputs"])
        for cls in cnt:
            if cls.startswith("heap:"):
                i, v = first[cls]
                rep.violation({"class": cls, "prog": rec["prog"], "how": rec["how"].split("(")[0],
                               "fact_has_window": "window" in u["features"] if "features" in u else None},
                              {"prog": rec["prog"], "how": rec["how"], "analysed_ir": rec["analysed_text"], "verdict": v,
                               "input": u["inputs"][i], "counts": dict(cnt)})
        rep.sample({"prog": rec["prog"], "how": rec["how"], "heap_verdicts": dict(cnt)})
    # (2) sanitizer / compiler events of the compiled C
    n_c = 0
    for k, (u, rec) in enumerate(zip(cunits, comp)):
        cnt = collections.Counter()
        first = {}
        for i in range(len(u["inputs"])):
            v = resc.verdicts[(k, i)]
            cls = v if v in ("c-event:abort", "c-event:cc_error") else "ok-or-other"
            cnt[cls] += 1
            first.setdefault(cls, (i, v))
        n_c += len(u["inputs"])
        for cls in ("c-event:abort", "c-event:cc_error"):
            if cls in cnt:
                i, v = first[cls]
                msg = " ".join(rec["info"]["msgs"])[:3000]
                if cls == "c-event:cc_error" and "discard" not in msg:
                    continue  # other compiler diagnostics are C15's subject (valid C), not C08's
                kind = ("use-after-free" if "heap-use-after-free" in msg else "overflow" if "overflow" in msg
                        else "leak" if "LeakSanitizer" in msg else "const" if "discard" in msg else "ub" if "runtime error" in msg else "other")
                rep.violation({"class": cls, "san": kind, "prog": rec["prog"], "how": rec["how"].split("(")[0]},
                              {"prog": rec["prog"], "how": rec["how"], "proc": rec["text"], "c": rec["info"]["c_text"],
                               "msgs": rec["info"]["msgs"], "input": u["inputs"][i]})
    rep.add_cov(states=resc.states + resh.states, transitions=resc.generated + resh.generated,
                traces_validated_against_impl=len(cunits), analysed_ir_units=len(hunits), analysed_ir_runs=n_h,
                sanitizer_executions=n_c, backend_rejected=stat["compile-error"], evaluations=n_h + n_c,
                distinct_nontrivial=len(hunits))
    rep.cov["rule"] = ("one case = a compilable procedure (memory-lifetime corpus and corpus A, as written and after buffer/loop "
                       "primitives); (1) the IR produced by the real MemoryAnalysis is run by TLC with Free statements: no access "
                       "or window creation after free (also through window aliases), no double free, every allocation freed when "
                       "its scope exits; (2) the compiled C, built with ASan+UBSan+LSan and -Werror=discarded-qualifiers, is "
                       "executed on the same bounded inputs; an abort or compiler-error event is rejected by the trace spec; the final "
                       "procedure of every host-realisable test of the repository's own test files is treated the same way")
    rep.assumptions += ["signed overflow / division by zero are observed only on small inputs (UBSan), not at sizes near 2^31"]
    return rep.finish()


if __name__ == "__main__":
    main_wrapper(main)
