"""C15 Compile output is valid C; inconsistent annotations are rejected.  spec/Annot.tla enumerates
the annotation assignments of a template call graph with their Consistent verdict (TLC); each is
replayed with the real set_precision / set_memory / set_window + compile; accepted compiles are judged
by gcc.  In addition every compilable corpus / derived procedure is syntax-checked."""
from __future__ import annotations

import collections
import random

from ..common import Report, main_wrapper, scratch, eff_seed, run_tlc, MachineryError, tlc_failure_excerpt
from ..cunits import run_cjobs
from .. import annotjobs
from .args import parse


def main():
    a = parse()
    rep = Report("C15", a.tier, "model_checking")
    quick = a.tier == "quick"
    with scratch() as d:
        r = run_tlc("Annot", "Annot.cfg", d, timeout=900)
        if not r.ok:
            raise MachineryError("TLC failed on Annot:\n" + tlc_failure_excerpt(r.stdout))
        asgs = [x for x in r.records if "prec" in x]
        asgs.sort(key=lambda x: str(sorted(x["prec"].items())) + str(sorted(x["mem"].items())) + str(sorted(x["win"].items())) + str(x.get("alias")))
        if quick:
            rng = random.Random(f"c15/{eff_seed()}")
            cons = [x for x in asgs if x["ok"]]
            # fixed core: all consistent ones, every single-rule violation class; plus a seed-dependent sample
            by = collections.defaultdict(list)
            for x in asgs:
                if not x["ok"]:
                    by[(bool(x.get("alias")), tuple(sorted(x["broken"])))].append(x)
            pick = list(cons)
            def ndiff(x):
                return (sum(1 for v in x["prec"].values() if v != "f32") + sum(1 for v in x["mem"].values() if v != "DRAM")
                        + sum(1 for v in x["win"].values() if v))
            # every assignment that differs from the default in at most two buffers (both alias variants) ...
            pick += [x for x in asgs if not x["ok"] and ndiff(x) <= 2]
            seen_ids = {id(x) for x in pick}
            # ... and per class of broken rules the smallest ones plus a seed-dependent sample
            for kk, lst in sorted(by.items()):
                lst = [x for x in lst if id(x) not in seen_ids]
                lst.sort(key=ndiff)  # assignments that differ from the default in the fewest buffers first
                pick += lst[:8]
                rest = lst[8:]
                rng.shuffle(rest)
                pick += rest[:8]
            asgs = pick
        out = annotjobs.run(asgs, d)
        # valid C of ordinary compiles: corpus + derived procedures through the strict gcc flags (cc_error events)
        crecs = run_cjobs(["harness.corpus.basic", "harness.corpus.memory", "harness.corpus.configs"], eff_seed(),
                          cap=1, workdir=d, derived=2 if quick else 12, sanitize=False, opt="-O0")
    stat = collections.Counter()
    for k, x in enumerate(asgs):
        o = out.get(k)
        if o is None:
            raise MachineryError(f"assignment {k} not replayed")
        stat[(x["ok"], o["status"])] += 1
        if not x["ok"] and o["status"] == "accepted":
            rep.violation({"what": "inconsistent annotations compiled", "broken": ",".join(sorted(x["broken"])),
                           "alias": bool(x.get("alias"))},
                          {"assignment": {kk: x[kk] for kk in ("prec", "mem", "win", "alias")}, "broken_rules": x["broken"],
                           "gcc_ok": o.get("cc_ok"), "gcc": o.get("cc_msg", "")[:800]})
        if o["status"] == "accepted" and not o["cc_ok"]:
            rep.violation({"what": "generated C rejected by gcc", "consistent": x["ok"], "broken": ",".join(sorted(x["broken"])),
                           "alias": bool(x.get("alias"))},
                          {"assignment": {kk: x[kk] for kk in ("prec", "mem", "win", "alias")}, "gcc": o["cc_msg"], "c": o.get("c")})
        if k % 400 == 0:
            rep.sample({"assignment": {kk: x[kk] for kk in ("prec", "mem", "win")}, "consistent": x["ok"],
                        "broken": x["broken"], "real": o["status"], "exc": o.get("exc")})
    n_cc = n_cc_bad = 0
    for rec in crecs:
        if rec["status"] != "compiled":
            continue
        n_cc += 1
        if "cc_error" in rec["info"]["events"]:
            n_cc_bad += 1
            rep.violation({"what": "generated C rejected by gcc", "prog": rec["prog"], "how": rec["how"].split("(")[0]},
                          {"prog": rec["prog"], "how": rec["how"], "proc": rec["text"], "gcc": rec["info"]["msgs"][:1],
                           "c": rec["info"]["c_text"][-2500:]})
    rep.add_cov(states=r.distinct, transitions=r.generated, traces_validated_against_impl=len(asgs),
                assignments_enumerated=r.distinct, assignments_replayed=len(asgs),
                inconsistent_rejected=stat[(False, "rejected")] + stat[(False, "rejected-by-scheduling")],
                consistent_accepted=stat[(True, "accepted")], consistent_over_rejected=stat[(True, "rejected")],
                ordinary_compiles_syntax_checked=n_cc, evaluations=len(asgs) + n_cc, distinct_nontrivial=len(asgs))
    rep.cov["rule"] = ("one case = one assignment of precision {f32,f64,i8} / memory {DRAM, DRAM_STACK, a memory without direct "
                       "access} / window-ness to the 7 buffers of a caller->callee->leaf template (all precision assignments, all "
                       "memory assignments, all window assignments, and mixes differing from the default in <= 1 buffer per "
                       "dimension), with the spec's Consistent verdict; quick replays every consistent one and a stratified "
                       "sample per violated-rule class; accepted compiles are checked with gcc -std=c11 -fsyntax-only and strict "
                       "-Werror flags, as is the C of corpus and derived procedures")
    rep.assumptions += ["gcc is the 'standard C compiler'", "one template call graph"]
    return rep.finish()


if __name__ == "__main__":
    main_wrapper(main)
