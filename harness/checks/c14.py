"""C14 Library instructions do what their Exo bodies say: every @instr of exo.platforms.x86 executable
on this host is wrapped, compiled with the real intrinsics, executed on lane-distinct operands for all
admissible mask/size arguments, and each execution is validated by ExoMachine running the Exo bodies."""
from __future__ import annotations

import collections

from ..common import Report, main_wrapper, scratch, eff_seed
from ..machine import run_units
from .. import instrwrap
from .args import parse


def main():
    a = parse()
    rep = Report("C14", a.tier, "translation_validation")
    quick = a.tier == "quick"
    with scratch() as d:
        recs, avx512 = instrwrap.run(eff_seed(), d, max_ctl=16 if quick else 64, reps=2 if quick else 8, only=a.only)
        built = [r for r in recs if r["status"] == "built"]
        units = [r["unit"] for r in built]
        res = run_units(units, d, stepbound=8000)
    stat = collections.Counter(r["status"] for r in recs)
    n_exec = n_ok = 0
    for k, (u, r) in enumerate(zip(units, built)):
        cnt = collections.Counter()
        first = {}
        minsz = {}
        for i in range(len(u["inputs"])):
            v = res.verdicts[(k, i)]
            cls = ("ok" if v == "ok" else "skip" if v == "A-invalid" else "differs" if v == "c-differs"
                   else "c-abort" if v.startswith("c-event:abort") or v.startswith("c-event:cc_error")
                   else "inconclusive" if ("inexact" in v or "divzero" in v or "winext" in v)
                   else "machine-trap" if v.startswith("A-trap") else "inconclusive")
            cnt[cls] += 1
            first.setdefault(cls, (i, v))
            ctl0 = [c for c in u["inputs"][i]["a"]["ctl"] if isinstance(c, int) and not isinstance(c, bool) and c > 0]
            if ctl0:
                minsz[cls] = min(minsz.get(cls, 10 ** 9), max(ctl0))
        n_exec += cnt["ok"] + cnt["differs"] + cnt["c-abort"]
        n_ok += cnt["ok"]
        r["verdicts"] = dict(cnt)
        for cls in ("differs", "c-abort", "machine-trap"):
            if cls in cnt:
                i, v = first[cls]
                inp = u["inputs"][i]
                sg = {"instr": r["instr"], "class": cls}
                if r.get("variant") is not None:
                    sg["strided_operand"] = r["variant"]
                if cls in minsz:
                    # smallest size/count argument among the failing executions (one vector = 16 / 8 lanes)
                    sg["fact_min_failing_size"] = "<=16" if minsz[cls] <= 16 else "17..30" if minsz[cls] <= 30 else ">=31"
                rep.violation(sg,
                              {"instr": r["instr"], "c_instr": r["c_instr"], "exo_body": r["body"], "wrapper": r["wrapper"],
                               "verdict": v, "input": inp["a"], "c_output": inp.get("out"), "counts": dict(cnt),
                               "msgs": r["msgs"]})
        rep.sample({"instr": r["instr"], "c_instr": r["c_instr"][:120], "verdicts": dict(cnt)})
    rep.add_cov(programs=len(units), disagreements_checked=n_exec, executions_agreeing=n_ok, states=res.states,
                transitions=res.generated, instructions_total=len(recs), instructions_skipped=stat["skipped"],
                wrappers_rejected=stat["wrapper-rejected"], strided_variants_rejected_by_exo=stat["strided-rejected"],
                strided_variants_run=sum(1 for r in built if r.get("variant") is not None), evaluations=n_exec, distinct_nontrivial=len(units))
    rep.cov["skipped"] = [(r["instr"], r.get("why", "")[:120]) for r in recs if r["status"] != "built"]
    rep.cov["avx512"] = avx512
    rep.cov["rule"] = ("one program = one x86 instruction inside a generated wrapper (DRAM operands at offset 1 inside larger "
                       "arrays - and, one operand at a time, as a stride-3 column of a 2-D array wherever exo accepts that, i.e. wherever the "
                       "instruction's assertions permit a non-unit stride -, register operands loaded/stored with the library's loadu/storeu instructions); executed with gcc "
                       "-mavx2 -mfma -mavx512f + sanitizers on lane-distinct small integers (negative values included, exact "
                       "quotients for div) for every admissible size/mask argument; each execution's final DRAM state is "
                       "validated by TLC against the machine executing the instructions' Exo bodies")
    rep.assumptions += ["operands restricted to exactly representable values", "loads/stores of the library are used to observe registers"]
    return rep.finish()


if __name__ == "__main__":
    main_wrapper(main)
