"""C03 Accepted procedures are memory-safe and call-safe (Safe invariant of ExoMachine on every
front-end-accepted program: corpora as written + generated source around the accept/reject boundary)."""
from __future__ import annotations

import collections
import importlib
import random

from ..common import Report, main_wrapper, scratch, eff_seed
from ..edgecheck import SAFETY_TRAPS
from ..machine import run_units, trap_kind
from .. import frontgen
from .args import parse

MODULES = ["harness.corpus.basic", "harness.corpus.configs", "harness.corpus.memory", "harness.corpus.parallel",
           "harness.corpus.indexgen"]


def corpus_units(cap):
    from ..export import make_unit, ExportError
    from ..inputs import gen_inputs
    units, meta = [], []
    for m in MODULES:
        mod = importlib.import_module(m)
        for p in mod.PROCS:
            pa = p.INTERNAL_proc()
            try:
                u, ex = make_unit(f"{m.split('.')[-1]}.{p.name()}", pa, None, mode="F")
            except ExportError:
                continue
            rng = random.Random(f"c03/{eff_seed()}/{p.name()}")
            u["inputs"] = [{"a": s} for s in gen_inputs(pa, ex.cfgtypes(), "F", rng, cap=cap, idxs=(-2, -1, 0, 1, 2, 3))]
            units.append(u)
            meta.append({"kind": "corpus", "src": str(p), "id": u["name"]})
    return units, meta


def main():
    a = parse()
    rep = Report("C03", a.tier, "model_checking")
    quick = a.tier == "quick"
    n_gen = 480 if quick else 6000
    recs = frontgen.run(n_gen, eff_seed(), cap=16 if quick else 48)
    stat = collections.Counter(r["status"] for r in recs)
    bykind = collections.defaultdict(collections.Counter)
    for r in recs:
        bykind[r["kind"]][r["status"]] += 1
    units = [r["unit"] for r in recs if r["status"] == "accepted"]
    meta = [{"kind": r["kind"], "src": r["src"], "id": f"fg{r['id']}"} for r in recs if r["status"] == "accepted"]
    cu, cm = corpus_units(16 if quick else 64)
    units += cu
    meta += cm
    with scratch() as d:
        res = run_units(units, d, stepbound=8000 if quick else 60000)
    n_in = n_ok = 0
    for k, (u, m) in enumerate(zip(units, meta)):
        cnt = collections.Counter()
        first = {}
        for i in range(len(u["inputs"])):
            v = res.verdicts[(k, i)]
            tk = trap_kind(v)
            cls = "ok" if v == "ok" else "skip" if v == "A-invalid" else ("unsafe:" + tk) if tk in SAFETY_TRAPS else "other"
            cnt[cls] += 1
            first.setdefault(cls, (i, v))
        n_in += len(u["inputs"])
        n_ok += cnt["ok"]
        for cls in cnt:
            if cls.startswith("unsafe:"):
                i, v = first[cls]
                rep.violation({"class": cls, "kind": m["kind"]},
                              {"id": m["id"], "source": m["src"], "verdict": v, "input": u["inputs"][i], "counts": dict(cnt)})
        if m["kind"] != "corpus":
            rep.sample({"id": m["id"], "kind": m["kind"], "source": m["src"].split("\n\n", 1)[-1][:500], "verdicts": dict(cnt)})
    rep.add_cov(states=res.states, transitions=res.generated, traces_validated_against_impl=len(units),
                generated_sources=len(recs), generated_accepted=stat["accepted"], generated_rejected=stat["rejected"],
                corpus_programs=len(cu), evaluations=n_in, runs_safe=n_ok, distinct_nontrivial=len(units))
    rep.cov["per_template"] = {k: dict(v) for k, v in bykind.items()}
    rep.cov["rule"] = ("one case = one Exo source text accepted by the real @proc (14 templates with offsets/extents/guards/"
                       "assertions drawn around the accept/reject boundary, plus all corpus procedures); TLC runs it on every "
                       "admissible input (sizes, index arguments -2..3, strided windows) and the Safe invariant must hold: no "
                       "out-of-bounds access or window, no violated callee assertion, non-positive size, shape mismatch, "
                       "aliased call arguments or negative trip count")
    rep.assumptions += ["bounded inputs; sizes extended to literal+-1 of every literal in the program"]
    return rep.finish()


if __name__ == "__main__":
    main_wrapper(main)
