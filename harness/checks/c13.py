"""C13 Range analysis bounds contain every attainable value: claims logged from the real analysis
(internal uses while compiling / simplifying / normalising / folding, user-level infer_range, and a
generator of expressions x environments) validated by spec/IndexExpr.tla over all valuations."""
from __future__ import annotations

import collections
import json
import os

from ..common import Report, main_wrapper, scratch, eff_seed, run_tlc, MachineryError, tlc_failure_excerpt
from .. import rangeclaims
from .args import parse

MODULES = ["harness.corpus.indexgen", "harness.corpus.indexmat", "harness.corpus.basic", "harness.corpus.memory"]


def main():
    a = parse()
    rep = Report("C13", a.tier, "model_checking")
    quick = a.tier == "quick"
    sel = (lambda m, p: a.only in p.name()) if a.only else None
    recs = rangeclaims.run(MODULES, eff_seed(), cands=6 if quick else 40, maxclaims=400 if quick else 4000, select=sel)
    claims = []
    seen = set()
    raw = 0
    for r in recs:
        for c in r["claims"]:
            raw += 1
            key = json.dumps([c["kind"], c["e"], c["env"], c["base"], c["haslo"], c["lo"], c["hashi"], c["hi"], c.get("preds")],
                             sort_keys=True)
            if key in seen:
                continue
            seen.add(key)
            claims.append(c)
    if not a.only:
        # claims made by the real analysis while the repository's own tests run (recorded by harness/testrec.py)
        from ..testrec import add_test_edges
        with scratch() as d0:
            _, other = add_test_edges(rep, a.tier, d0, units=False, fwd=False, purity=False, claims=True)
        n_t = 0
        for o in other:
            if o.get("kind") == "claims":
                for c in o["claims"]:
                    raw += 1
                    key = json.dumps([c["kind"], c["e"], c["env"], c["base"], c["haslo"], c["lo"], c["hashi"], c["hi"], c.get("preds")],
                                     sort_keys=True)
                    if key in seen:
                        continue
                    seen.add(key)
                    c["prog"] = "repo:" + o.get("file", "")
                    c["src"] = "repo-test"
                    claims.append(c)
                    n_t += 1
        rep.add_cov(claims_from_repo_tests=n_t)
    gen, gen_errs = rangeclaims.gen_claims(eff_seed(), 1500 if quick else 20000)
    for c in gen:
        c["prog"] = "generated"
    claims += gen
    nontrivial = [c for c in claims if c["haslo"] or c["hashi"]]
    by_src = collections.Counter(c["src"].split("+")[0] for c in nontrivial)
    states = trans = 0
    bad = []
    with scratch() as d:
        CH = 4000
        for k in range(0, len(nontrivial), CH):
            chunk = nontrivial[k:k + CH]
            path = os.path.join(d, f"claims_{k}.json")
            with open(path, "w") as f:
                json.dump([dict({kk: c[kk] for kk in ("kind", "e", "e2", "base", "env", "w", "haslo", "lo", "hashi", "hi")},
                                preds=c.get("preds", [])) for c in chunk], f)
            r = run_tlc("IndexExpr", "IndexExpr.cfg", d, env={"EXO_CLAIMS": path}, timeout=2400)
            if not r.ok:
                raise MachineryError("TLC failed on IndexExpr:\n" + tlc_failure_excerpt(r.stdout))
            states += r.distinct
            trans += r.generated
            got = {rec["c"]: rec for rec in r.records if "c" in rec}
            for j, c in enumerate(chunk, start=1):
                rec = got.get(j)
                if rec is None:
                    raise MachineryError(f"no verdict for claim {j} of chunk {k}")
                if not rec["ok"]:
                    bad.append((c, rec["cex"]))
    for c, cex in bad:
        rep.violation({"src": c["src"].split("+")[0], "has_div_mod": ("/" in c["text"] or "%" in c["text"])},
                      {"expr": c["text"], "env": c["env"], "claimed": {k: c[k] for k in ("haslo", "lo", "hashi", "hi")},
                       "base": c["base"], "counterexample_valuation": cex, "prog": c.get("prog")})
    for c in nontrivial[:: max(1, len(nontrivial) // 5)][:5]:
        rep.sample({"expr": c["text"], "env": c["env"], "claimed": [c["lo"] if c["haslo"] else None, c["hi"] if c["hashi"] else None],
                    "base": c["base"], "source": c["src"]})
    rep.add_cov(states=states, transitions=trans, traces_validated_against_impl=len(nontrivial), claims_logged=raw,
                claims_distinct=len(claims), claims_nontrivial=len(nontrivial), generator_errors=gen_errs,
                evaluations=len(nontrivial), distinct_nontrivial=len(nontrivial))
    rep.cov["claims_by_source"] = dict(by_src)
    rep.cov["rule"] = ("one case = one claim (expression, environment of possibly unknown/half-open variable ranges, claimed "
                       "base + [lo, hi]) produced by the real analysis: logged inside index_range_analysis while the real "
                       "compiler, simplify, divide/cut/shift/resize(fold)/stage + simplify + compile run on the corpus; "
                       "returned by infer_range for every index expression x enclosing scope; or produced on generated "
                       "expressions (depth 3, + - * / % with literals) x random environments; non-trivial = at least one "
                       "finite end claimed; TLC checks containment for all valuations in the environment (window +-7..+-2 for "
                       "unknown ends, by number of variables)")
    rep.assumptions += ["valuations of unknown ends are explored in a finite window only"]
    return rep.finish()


if __name__ == "__main__":
    main_wrapper(main)
