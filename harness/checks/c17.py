"""C17 The printed procedure denotes the procedure.
 (1) spec/PrintEnv.tla: the naming automaton is injective on visible symbols (TLC) and every explored
     history is replayed on the real PrintEnv;
 (2) PrintEnv!Injective monitored on every real print of corpus and derived procedures;
 (3) reparse of the printed text: same printed form and ExoEquiv(p, reparsed) (TLC)."""
from __future__ import annotations

import collections

from ..common import Report, main_wrapper, scratch, eff_seed, run_tlc, MachineryError, tlc_failure_excerpt
from ..edgecheck import verdict_class
from ..machine import run_units
from .. import replay_printenv, reparse
from .args import parse

MODULES = ["harness.corpus.basic", "harness.corpus.configs", "harness.corpus.memory", "harness.corpus.shapes",
           "harness.corpus.nameclash", "harness.corpus.indexmat"]


def main():
    a = parse()
    rep = Report("C17", a.tier, "model_checking")
    quick = a.tier == "quick"
    with scratch() as d:
        r = run_tlc("PrintEnv", "PrintEnv.cfg" if quick else "PrintEnvDeep.cfg", d, timeout=2400)
        if r.violated in ("Injective",) or "Stable" in (r.stdout if not r.ok else ""):
            rep.violation({"layer": "spec", "invariant": r.violated or "Stable"}, {"tlc": r.stdout[-4000:]})
        elif not r.ok:
            raise MachineryError("TLC failed on PrintEnv:\n" + tlc_failure_excerpt(r.stdout))
        n_hist = 0
        for rec in r.records:
            if "h" not in rec:
                continue
            n_hist += 1
            mism = replay_printenv.replay(rec)
            if mism:
                rep.violation({"layer": "replay"}, {"history": rec["h"], "mismatch": mism})
        sel = (lambda m, p: a.only in p.name()) if a.only else None
        recs = reparse.run(MODULES, eff_seed(), cap=8 if quick else 32, derived=6 if quick else 40, select=sel)
        if not a.only:
            # the final procedure of every test of the repository's own test files (recorded), printed and parsed again
            from ..testrec import add_test_edges
            _, other = add_test_edges(rep, a.tier, d, units=False, fwd=False, purity=False, reparse=60 if quick else 1000)
            trecs = [o for o in other if o.get("kind") == "reparse"]
            rep.add_cov(repo_test_final_procedures_reparsed=sum(1 for o in trecs if o.get("status") == "ok"))
            recs += trecs
        stat = collections.Counter(x["status"] for x in recs)
        units, owners = [], []
        for x in recs:
            if x.get("name_clashes"):
                rep.violation({"layer": "print", "what": "two visible symbols printed alike", "how": x["how"].split("(")[0]},
                              {"prog": x["prog"], "how": x["how"], "clashes": x["name_clashes"], "text": x["text"]})
            if x["status"] == "syntax":
                import re
                rep.violation({"layer": "reparse", "what": "printed text is not parseable", "how": x["how"].split("(")[0],
                               "err": x["msg"].split(":")[0],
                               "fact_bool_or_stride_arg": bool(re.search(r": (bool|stride) @", x["text"].split("):")[0]))
                                                          and "annotated with memory" in x["msg"]},
                              {"prog": x["prog"], "how": x["how"], "text": x["text"], "error": x["msg"]})
            if x["status"] == "ok":
                if not x["same_text"]:
                    import re as _re
                    # the only difference is '-0' read back as '0'?  (unary minus of the literal 0, e.g. '-i' unrolled at i = 0)
                    only_neg_zero = _re.sub(r"(?<![\w.)\]])-0(?![\w.])", "0", x["text"]) == x["text2"]
                    rep.violation({"layer": "reparse", "what": "printed form changed", "how": x["how"].split("(")[0],
                                   "fact_only_negative_zero": only_neg_zero},
                                  {"prog": x["prog"], "how": x["how"], "text": x["text"], "text2": x["text2"]})
                if "unit" in x:
                    units.append(x["unit"])
                    owners.append(x)
        res = run_units(units, d, stepbound=8000 if quick else 60000)
    n_in = 0
    for k, (u, x) in enumerate(zip(units, owners)):
        cnt = collections.Counter()
        first = {}
        for i in range(len(u["inputs"])):
            cls, det = verdict_class(res.verdicts[(k, i)])
            cnt[cls] += 1
            first.setdefault(cls, (i, res.verdicts[(k, i)]))
        n_in += len(u["inputs"])
        for cls in ("differ", "uninit", "cfg", "safety"):
            if cls in cnt:
                i, v = first[cls]
                rep.violation({"layer": "reparse", "what": "reparsed procedure behaves differently", "class": cls,
                               "how": x["how"].split("(")[0]},
                              {"prog": x["prog"], "how": x["how"], "text": x["text"], "verdict": v, "input": u["inputs"][i]})
        if len(rep.cov["samples"]) < 4:
            rep.sample({"prog": x["prog"], "how": x["how"], "printed": x["text"][:600], "verdicts": dict(cnt)})
    rep.add_cov(states=r.distinct + res.states, transitions=r.generated + res.generated,
                traces_validated_against_impl=n_hist + len(units), printenv_histories_replayed=n_hist,
                procedures_printed=len(recs), reparsed_ok=stat["ok"], reparse_rejected_by_frontend=stat["rejected"],
                reparse_syntax_errors=stat["syntax"], equivalence_units=len(units), evaluations=n_hist + n_in,
                distinct_nontrivial=n_hist + len(units))
    rep.cov["rule"] = ("(1) all histories of push/pop/get_name over symbols {x, x_1, y} x ids {1,2}, depth 3, up to 6 "
                       "operations; (2)+(3) every corpus procedure and derived procedures (name-duplicating operations first: "
                       "unroll, inline, cut, specialize, stage_mem, ...; two levels) printed under the injectivity monitor, "
                       "reparsed with the real @proc (callees, configs, memories, externs in scope), printed forms compared and "
                       "both procedures run by TLC on the bounded inputs")
    rep.assumptions += ["a reparse rejected by the front end's (incomplete) static checks is counted, not failed"]
    return rep.finish()


if __name__ == "__main__":
    main_wrapper(main)
