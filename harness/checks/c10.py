"""C10 Configuration rewrites report every field they may change (ExoEquiv with CfgAgree over all
initial configuration states; call_eqv only with callees of the same origin)."""
from __future__ import annotations

from ..common import Report, main_wrapper, scratch
from ..edgecheck import collect_edges, decide_edges
from .args import parse

MODULES = ["harness.corpus.configs"]
OPS = ["bind_config", "write_config", "delete_config", "call_eqv", "reorder_stmts", "fission", "autofission",
       "fuse", "lift_scope", "inline", "simplify", "remove_loop", "add_loop", "unroll_loop", "divide_loop",
       "cut_loop", "delete_pass", "insert_pass", "specialize", "eliminate_dead_code", "extract_subproc",
       "merge_writes", "reorder_loops", "shift_loop", "join_loops", "stage_mem", "bind_expr"]


def main():
    a = parse()
    rep = Report("C10", a.tier, "model_checking")
    quick = a.tier == "quick"
    sel = (lambda m, p: a.only in p.name()) if a.only else None
    edges = collect_edges(MODULES, a.tier, cap=16 if quick else 128, ops=OPS, depth2=2 if quick else 12,
                          select=sel, nshards=6)
    # configuration-touching programs of corpus A as well
    edges += collect_edges(["harness.corpus.basic"], a.tier, cap=24 if quick else 96, ops=OPS, depth2=1 if quick else 6,
                           select=lambda m, p: p.name().startswith(("cfg_", "bindable")) and (not a.only or a.only in p.name()),
                           nshards=4)
    n_foreign = n_foreign_rejected = 0
    for e in edges:
        if e["op"] == "call_eqv" and e["facts"].get("foreign"):
            n_foreign += 1
            if e["status"] in ("accepted", "noop"):
                rep.violation({"op": "call_eqv", "class": "foreign-origin-accepted", "prog": e["prog"], "args": e["args"]},
                              {"edge": {k: e[k] for k in ("prog", "op", "args", "facts")}, "text_b": e.get("text_b")})
            else:
                n_foreign_rejected += 1
    with scratch() as d:
        decide_edges(rep, edges, {"cfg", "differ", "uninit"}, stepbound=6000 if quick else 50000, workdir=d)
    rep.add_cov(call_eqv_foreign_candidates=n_foreign, call_eqv_foreign_rejected=n_foreign_rejected)
    rep.cov["rule"] = ("one case = an accepted configuration-affecting operation (bind_config/write_config/delete_config/call_eqv) or "
                       "another primitive applied around configuration reads/writes, on procedures that access configuration "
                       "directly and through callees; TLC compares all buffers and every configuration field not in the modset "
                       "reported by the equivalence tracker, over sampled initial configuration states; call_eqv with a callee of "
                       "foreign origin must be rejected")
    rep.assumptions += ["initial configuration values sampled from {0,1,3} x booleans x generic field elements"]
    return rep.finish()


if __name__ == "__main__":
    main_wrapper(main)
