"""C11 Procedure-equivalence tracking is a sound congruence.
 (1) spec/ProcEqv.tla exhaustive (implementation-shaped union-finds refine the abstract per-field
     closure; strictest-set answers; never across origins) - TLC;
 (2) replay of one witness history per explored state through the public objects, all pairwise
     answers compared;
 (3) histories recorded from random real scheduling sessions validated by spec/ProcEqvTrace.tla."""
from __future__ import annotations

import json
import os

from ..common import Report, main_wrapper, scratch, eff_seed, run_tlc, MachineryError, tlc_failure_excerpt
from ..replay_eqv import replay
from .. import eqvtrace
from .args import parse

MODULES = ["harness.corpus.configs", "harness.corpus.basic"]


def main():
    a = parse()
    rep = Report("C11", a.tier, "model_checking")
    quick = a.tier == "quick"
    with scratch() as d:
        r = run_tlc("ProcEqv", "ProcEqv.cfg", d, timeout=1200)
        if r.violated in ("Refines", "StrictestOK", "NeverAcrossOrigins"):
            rep.violation({"layer": "spec", "invariant": r.violated}, {"tlc": r.stdout[-5000:]})
        elif not r.ok:
            raise MachineryError("TLC failed on ProcEqv:\n" + tlc_failure_excerpt(r.stdout))
        states, trans = r.distinct, r.generated
        if not quick:
            r6 = run_tlc("ProcEqv", "ProcEqvDeep.cfg", d, timeout=3000, want_records=False)
            if r6.violated:
                rep.violation({"layer": "spec", "invariant": r6.violated, "depth": 6}, {"tlc": r6.stdout[-5000:]})
            elif not r6.ok:
                raise MachineryError("TLC failed on ProcEqvDeep:\n" + tlc_failure_excerpt(r6.stdout))
            states += r6.distinct
            trans += r6.generated
        n_hist = 0
        for rec in r.records:
            if "h" not in rec:
                continue
            n_hist += 1
            mism = replay(rec)
            if mism:
                rep.violation({"layer": "replay", "first": mism[0].split("(")[0]},
                              {"history": rec["h"], "mismatches": mism[:6]})
            if n_hist % 4000 == 1:
                rep.sample({"history": rec["h"], "answers": rec["ans"]})
        # (3) recorded sessions
        sel = (lambda m, p: a.only in p.name()) if a.only else None
        traces = eqvtrace.run(MODULES, eff_seed(), sessions=2 if quick else 10, length=8 if quick else 12, select=sel)
        keys = sorted({k for t in traces for k in t["keys"]})
        np_ = max([t["n"] for t in traces] + [1])
        path = os.path.join(d, "eqv_traces.json")
        with open(path, "w") as f:
            json.dump({"np": np_, "keys": keys, "traces": [{"h": t["h"], "n": t["n"], "ans": t["ans"]} for t in traces]}, f)
        rt = run_tlc("ProcEqvTrace", "ProcEqvTrace.cfg", d, env={"EXO_EQV_TRACES": path}, timeout=1200)
        if not rt.ok:
            raise MachineryError("TLC failed on ProcEqvTrace:\n" + tlc_failure_excerpt(rt.stdout))
        done = {}
        for rec in rt.records:
            if "t" in rec:
                done[rec["t"]] = rec
        n_ok = 0
        for k, t in enumerate(traces, start=1):
            rec = done.get(k)
            if rec is None or rec["consumed"] != len(t["h"]):
                rep.violation({"layer": "trace", "why": "history is not a behaviour of ProcEqv"},
                              {"prog": t["prog"], "history": t["h"], "consumed": rec and rec["consumed"]})
            elif not rec["ok"]:
                rep.violation({"layer": "trace", "why": "answers differ from the per-field closure"},
                              {"prog": t["prog"], "history": t["h"], "bad_pairs": rec["bad"], "answers": t["ans"]})
            else:
                n_ok += 1
        n_events = sum(len(t["h"]) for t in traces)
        sig_change = sum(1 for t in traces for e in t["h"][1:] if e["op"] == "decl")
        rep.sample({"recorded_session": traces[0]["prog"], "history": traces[0]["h"]} if traces else "no sessions")
    rep.add_cov(states=states + rt.distinct, transitions=trans + rt.generated,
                traces_validated_against_impl=n_hist + len(traces), replayed_histories=n_hist,
                recorded_sessions=len(traces), recorded_sessions_accepted=n_ok, recorded_events=n_events,
                recorded_new_origins=sig_change, evaluations=n_hist + len(traces), distinct_nontrivial=n_hist)
    rep.cov["rule"] = ("(1) TLC: all histories of DeclNew / Derive(p,q,K) / AssertEqK(p,q,K) over 4 procedures and 2 keys up to 5 "
                       "(thorough 6) steps, keys first mentioned at any point; (2) one witness history per distinct state is "
                       "replayed through Procedure(...), unsafe_assert_eq and the answers of get_strictest_eqv_proc / "
                       "check_eqv_proc (all K) / is_eq compared for all pairs; (3) random real scheduling sessions (primitives, "
                       "config ops with modsets, partial_eval / add_assertion as new origins, unsafe_assert_eq) are recorded at "
                       "Procedure.__init__ and validated as behaviours of the spec with the real final answers")
    rep.assumptions += ["per-field reading of the property (DESIGN C11)", "tracker reset between replayed histories"]
    return rep.finish()


if __name__ == "__main__":
    main_wrapper(main)
