"""C18 Scheduling and compilation are deterministic: the same scripted sessions are executed in fresh
interpreters under different hash seeds, symbol-counter offsets, earlier unrelated definitions and
import orders (ASLR on); spec/Determinism.tla accepts the runs only if all observations of the same
(source, schedule step) agree."""
from __future__ import annotations

import json
import os
import subprocess
from concurrent.futures import ThreadPoolExecutor

from ..common import Report, main_wrapper, scratch, eff_seed, run_tlc, MachineryError, tlc_failure_excerpt, ROOT, NCPU
from .args import parse

MODULES = ["harness.corpus.detlib", "harness.corpus.nameclash", "harness.corpus.basic", "harness.corpus.configs",
           "harness.corpus.memory", "harness.corpus.replace"]


def one_run(cfg, steps):
    env = dict(os.environ)
    env.update({"PYTHONHASHSEED": str(cfg["hashseed"]), "DET_MODULES": cfg["module"], "DET_OFFSET": str(cfg["offset"]),
                "DET_ORDER": cfg["order"], "DET_STEPS": str(steps), "DET_SWEEP": "1" if cfg.get("sweep") else "0", "PYTHONPATH": f"{os.environ.get('EXO_SRC', '/repo/src')}:{ROOT}"})
    p = subprocess.run(["/venv/bin/python", "-m", "harness.detrun"], cwd=ROOT, env=env, capture_output=True, text=True,
                       timeout=5400)
    obs = []
    for line in p.stdout.splitlines():
        try:
            obs.append(json.loads(line))
        except Exception:
            pass
    if p.returncode != 0 and not obs:
        raise MachineryError("determinism run failed:\n" + p.stderr[-2000:])
    return {"cfg": cfg, "obs": obs}


def main():
    a = parse()
    rep = Report("C18", a.tier, "exploration")
    quick = a.tier == "quick"
    s = eff_seed()
    variants = [
        {"hashseed": 0, "offset": 0, "order": "fwd"},
        {"hashseed": 1, "offset": 0, "order": "fwd"},
        {"hashseed": 2, "offset": 37, "order": "rev"},
        {"hashseed": "random", "offset": 1000, "order": "none"},
    ]
    if not quick:
        variants += [{"hashseed": 3 + k, "offset": 13 * k, "order": ["fwd", "rev", "none"][k % 3]} for k in range(8)]
        variants += [{"hashseed": "random", "offset": 5, "order": "rev"}] * 4
    mods = MODULES[:4] if quick else MODULES
    cfgs = [dict(v, module=m, sweep=(k == 0)) for m in mods for k, v in enumerate(variants)]
    steps = 3 if quick else 6
    with ThreadPoolExecutor(NCPU) as ex:
        runs = list(ex.map(lambda c: one_run(c, steps), cfgs))
    # the repository's own tests under the recorder, in fresh interpreters with different hash seeds and symbol-counter
    # offsets: the k-th Procedure a test creates must print identically in every run
    if not a.only:
        from ..testrec import run_tests, QUICK_FILES, THOROUGH_FILES
        files = ["tests/test_schedules.py", "tests/test_cursors.py", "tests/test_config.py"] if quick else \
                [f for f in THOROUGH_FILES if "apps" not in f]
        tvars = [("1", 0), ("2", 950), ("3", 99000)] + ([] if quick else [("4", 9990), ("random", 7)])

        def trun(v):
            with scratch() as dd:
                recs, info = run_tests(files, dd, fwd=False, units=False, purity=False, texts=True,
                                       extra_env={"PYTHONHASHSEED": v[0], "TESTREC_SYM_OFFSET": str(v[1])})
            obs = []
            for r_ in recs:
                if r_.get("kind") == "texts":
                    for k_, dg in enumerate(r_["digests"]):
                        obs.append({"key": "repo:" + r_["test"], "step": k_, "chain": [], "str": dg, "c": "-", "h": "-"})
            return {"cfg": {"hashseed": v[0], "offset": v[1], "module": "repository tests"}, "obs": obs}
        with ThreadPoolExecutor(len(tvars)) as ex:
            truns = list(ex.map(trun, tvars))
        rep.add_cov(repo_test_runs=len(truns), repo_test_procedures_observed=min(len(t["obs"]) for t in truns))
        runs += truns
    # group runs per module so that `expected` is per module; order: reference variant first
    with scratch() as d:
        path = os.path.join(d, "runs.json")
        with open(path, "w") as f:
            json.dump(runs, f)
        r = run_tlc("Determinism", "Determinism.cfg", d, env={"EXO_DET_RUNS": path}, timeout=2400, workers=1)
        if not r.ok:
            raise MachineryError("TLC failed on Determinism:\n" + tlc_failure_excerpt(r.stdout))
    last = None
    for rec in r.records:
        if "done" in rec and (last is None or (rec["r"], rec["l"]) > (last["r"], last["l"])):
            last = rec
    n_obs = sum(len(x["obs"]) for x in runs)
    keys = {(o["key"], o["step"]) for x in runs for o in x["obs"]}
    if last is None:
        raise MachineryError("no verdict from Determinism")
    if not last["done"]:
        run = runs[last["r"] - 1]
        o = run["obs"][last["l"] - 1] if last["l"] - 1 < len(run["obs"]) else None
        first = None
        for x in runs:
            for oo in x["obs"]:
                if o and (oo["key"], oo["step"]) == (o["key"], o["step"]):
                    first = (x["cfg"], oo)
                    break
            if first:
                break
        which = [k for k in ("chain", "str", "c", "h") if o and first and o[k] != first[1][k]]
        rep.violation({"differs": ",".join(which), "key": o and o["key"].split(".")[0]},
                      {"observation": o, "run_cfg": run["cfg"], "first_observation": first})
    rep.sample({"run": runs[0]["cfg"], "observations": runs[0]["obs"][:3]})
    n_err = sum(1 for x in runs for o in x["obs"] if str(o.get("c", "")).startswith("E"))
    rep.add_cov(observations_where_compilation_raised=n_err)
    rep.cov["compile_errors_by_key"] = sorted({o["key"] + ":" + o["c"] for x in runs for o in x["obs"]
                                               if str(o.get("c", "")).startswith("E") and o["key"].endswith(("LIB", "LIBS", "@factory"))})[:20]
    rep.add_cov(states=r.distinct, transitions=r.generated, traces_validated_against_impl=len(runs), runs=len(runs),
                observations=n_obs, evaluations=n_obs, distinct_nontrivial=len(keys),
                variants=len(variants))
    rep.cov["rule"] = ("one case = one (procedure, schedule step) observation: digests of str(p), generated .c and .h (single "
                       "procedure and multi-procedure libraries with configs, windows, several memories); the same scripted "
                       "session is run in fresh interpreters with PYTHONHASHSEED 0/1/2/random, 0/37/1000 symbols and up to 5 "
                       "procedures created beforehand, unrelated corpus modules imported in forward/reverse/no order; distinct = "
                       "distinct (procedure, step) keys; the Determinism spec rejects the first disagreeing observation; the repository's "
                       "own test files are run under the recorder with hash seeds 1/2/3 and 0/950/99000 symbols created first: the "
                       "k-th Procedure each test creates must print identically")
    rep.assumptions += ["2-safety by sampling of process histories; address-space randomisation as provided by the kernel"]
    return rep.finish()


if __name__ == "__main__":
    main_wrapper(main)
