"""C06 layer (3): forwarding through real scheduling operations, judged by the label oracle of
spec/CursorEdit.tla (SameDenotation): a forwarded node cursor must denote the statement with the
same label, a gap cursor the same anchor and side, a block cursor a range whose edge members are
(or contain) surviving members of the original block or fresh statements.  Labels: the unique data
literal written by each leaf statement of the shape programs; compound statements are identified by
the leaf labels below them."""
from __future__ import annotations

import importlib
import random
import signal

from .common import NCPU


class _Timeout(BaseException):  # must not be swallowed by "except Exception" in oracles
    pass


def _alarm(signum, frame):
    raise _Timeout()


def leaf_label(n):
    """label of a leaf statement node, or None (pass, unlabeled)"""
    from exo.core.LoopIR import LoopIR
    if isinstance(n, (LoopIR.Assign, LoopIR.Reduce)):
        lits = []

        def ex(e):
            if isinstance(e, LoopIR.Const) and isinstance(e.val, float):
                lits.append(e.val)
            elif isinstance(e, LoopIR.BinOp):
                ex(e.lhs)
                ex(e.rhs)
            elif isinstance(e, LoopIR.USub):
                ex(e.arg)
            elif isinstance(e, LoopIR.Extern):
                for a in e.args:
                    ex(a)
        ex(n.rhs)
        # the unique data literal identifies the statement (buffer names change under staging/binding)
        return ("w", tuple(sorted(lits))) if lits else ("w", str(n.name))
    if isinstance(n, LoopIR.Alloc):
        return ("alloc", str(n.name))
    if isinstance(n, LoopIR.Call):
        # identified by its arguments, not by the callee: call_eqv / rename of the callee rewrite the statement in place
        return ("call", tuple(str(a) for a in n.args))
    if isinstance(n, LoopIR.WindowStmt):
        return ("win", str(n.name))
    if isinstance(n, LoopIR.WriteConfig):
        return ("cfg", n.config.name(), n.field)
    return None


def leaves(n):
    """set of leaf labels in the subtree of statement node n"""
    from exo.core.LoopIR import LoopIR
    if isinstance(n, LoopIR.For):
        out = set()
        for c in n.body:
            out |= leaves(c)
        return out
    if isinstance(n, LoopIR.If):
        out = set()
        for c in n.body + n.orelse:
            out |= leaves(c)
        return out
    l = leaf_label(n)
    return {l} if l is not None else set()


def all_leaves(proc):
    out = set()
    for s in proc.body:
        out |= leaves(s)
    return out


def is_compound(n):
    from exo.core.LoopIR import LoopIR
    return isinstance(n, (LoopIR.For, LoopIR.If))


def judge_node(n0, n1, live, old_all=frozenset()):
    """n0 original node, n1 forwarded node, live = leaf labels present in the new procedure,
    old_all = all leaf labels of the original procedure."""
    if is_compound(n0):
        surv = leaves(n0) & live
        if not surv:
            return "ok"
        l1 = leaves(n1)
        if l1 & surv:
            return "ok"
        # a split compound statement (fission) may keep only unlabelled statements (pass) in the part the
        # cursor follows: that is still "the same statement"; it is a different statement only if what it
        # contains are statements of the old procedure that were never below the cursor
        return "wrong-statement" if (l1 & old_all) else "ok"
    l0 = leaf_label(n0)
    if l0 is None:
        return "ok"  # pass statements carry no identity
    if is_compound(n1):
        return "ok" if l0 in leaves(n1) else "wrong-statement"
    l1 = leaf_label(n1)
    if l1 is None and l0 not in live:
        return "ok"
    if l1 != l0 and l0[0] == "w" and l1 is not None and l1[0] == "w" and type(n0) is type(n1) \
            and str(getattr(n0, "name", "")) == str(getattr(n1, "name", None)):
        # the same write rewritten in place with part of its right-hand side moved elsewhere (lift_reduce_constant
        # lifts the constant factor out of 'acc += 7.0 * x[i]'): still the statement the cursor was created on
        lits0 = set(l0[1]) if isinstance(l0[1], tuple) else set()
        lits1 = set(l1[1]) if isinstance(l1[1], tuple) else set()
        if lits1 <= lits0:
            return "ok"
    return "ok" if l1 == l0 else "wrong-statement"


def cursors_of(p):
    """(kind, descr, cursor) for every node, gap and block cursor of procedure p"""
    import exo.API_cursors as C
    from .gen_schedules import walk_stmts, blocks_of
    out = []
    for s, depth, path in walk_stmts(p.body()):
        out.append(("node", str(path), s))
        out.append(("gap", str(path) + "<", s.before()))
        out.append(("gap", str(path) + ">", s.after()))
    for bi, b in enumerate(blocks_of(p)):
        n = len(b)
        for lo in range(n):
            for hi in range(lo + 1, n + 1):
                if hi - lo == 1 and n > 1 and False:
                    continue
                out.append(("block", f"B{bi}[{lo}:{hi}]", b[lo:hi]))
    return out


BENIGN = ("InvalidCursorError",)


def fwd_and_judge(q, kind, c, live_q, old_all):
    """-> (verdict, detail); verdict in ok | invalid | assert | wrong-statement | dangling | lossy"""
    from exo.core.internal_cursors import InvalidCursorError
    import exo.API_cursors as C
    try:
        c2 = q.forward(c)
    except InvalidCursorError:
        return "invalid", ""
    except NotImplementedError as e:
        if "forwarding function" in str(e):
            return "invalid", "no-forwarding"
        return "dangling", f"NotImplementedError: {e}"
    except AssertionError as e:
        return "assert", str(e)[:80]
    except Exception as e:
        return "dangling", f"{type(e).__name__}: {str(e)[:120]}"
    if isinstance(c2, C.InvalidCursor):
        return "invalid", ""
    try:
        if kind == "node":
            return judge_node(c._impl._node, c2._impl._node, live_q, old_all), ""
        if kind == "gap":
            a0, a1 = c.anchor(), c2.anchor()
            if c.type() != c2.type():
                return "wrong-statement", "gap side changed"
            return judge_node(a0._impl._node, a1._impl._node, live_q, old_all), ""
        # block
        orig = [x._impl._node for x in c]
        new = [x._impl._node for x in c2]
        if not new:
            return "invalid", "empty"
        orig_leaves = set()
        for n in orig:
            orig_leaves |= leaves(n)
        surv = orig_leaves & live_q
        if not surv:
            return "ok", ""
        for edge in (new[0], new[-1]):
            le = leaves(edge)
            if le & surv:
                continue
            if le and le <= old_all and not (le & surv):
                return "wrong-statement", "block edge is a foreign statement"
        got = set()
        for n in new:
            got |= leaves(n)
        if not surv <= got:
            return "lossy", ""
        return "ok", ""
    except InvalidCursorError:
        return "invalid", ""
    except Exception as e:
        return "dangling", f"deref {type(e).__name__}: {str(e)[:120]}"


def _job(job, emit):
    signal.signal(signal.SIGALRM, _alarm)
    from .gen_schedules import enumerate_candidates
    from .edges import corpus_ctx
    import exo.stdlib.scheduling as S
    import exo.API_cursors as C
    from exo.core.internal_cursors import InvalidCursorError

    mod = importlib.import_module(job["module"])
    p = mod.PROCS[job["index"]]
    prog = f"{job['module'].split('.')[-1]}.{p.name()}"
    ctx = corpus_ctx(mod)
    cands = enumerate_candidates(p, ctx, ops=job.get("ops"))
    curs_p = cursors_of(p)
    old_all = all_leaves(p.INTERNAL_proc())

    def check_edge(base, base_curs, q, rec):
        live = all_leaves(q.INTERNAL_proc())
        cnt = {}
        viols = []
        for kind, descr, c in base_curs:
            v, det = fwd_and_judge(q, kind, c, live, old_all)
            cnt[v] = cnt.get(v, 0) + 1
            if v in ("wrong-statement", "dangling"):
                viols.append({"cursor": f"{kind} {descr}", "verdict": v, "detail": det})
        rec["counts"] = cnt
        rec["viols"] = viols[:6]
        rec["n_viol"] = len(viols)

    def implicit(base, q, rec):
        """op(q, c0) must behave as op(q, q.forward(c0)) for cursors c0 of the ancestor `base`"""
        mism = []
        n = 0
        for kind, descr, c in cursors_of(base):
            if kind != "node":
                continue
            for opname, mk, f in (("insert_pass", lambda cur: cur.before(), lambda arg: S.insert_pass(q, arg)),
                                  ("unroll_loop", lambda cur: cur, lambda arg: S.unroll_loop(q, arg)),
                                  ("reorder_stmts", lambda cur: cur.expand(0, 1), lambda arg: S.reorder_stmts(q, arg))):
                if opname == "unroll_loop" and not isinstance(c, C.ForCursor):
                    continue
                try:
                    arg = mk(c)  # a cursor into the ancestor procedure
                except Exception:
                    continue

                def run(thunk):
                    try:
                        return ("ok", str(thunk()))
                    except Exception as e:
                        return ("exc", type(e).__name__)
                r1 = run(lambda: f(arg))
                r2 = run(lambda: f(q.forward(arg)))
                n += 1
                if r1 != r2:
                    if r1[0] == "exc" and r2[0] == "exc":
                        continue
                    mism.append({"cursor": descr, "op": opname, "implicit": r1[1][:200], "explicit": r2[1][:200]})
        rec["implicit_checked"] = n
        rec["implicit_mismatch"] = mism[:4]
        rec["n_implicit_mismatch"] = len(mism)

    rng = random.Random(f"{job['seed']}/{prog}/{job['shard']}")
    from . import edittrace
    if job.get("edit_cap"):
        edittrace.start(cap=job["edit_cap"])  # elementary edits of every primitive -> spec/CursorEditTrace.tla
    for k, cnd in enumerate(cands):
        if k % job["nshards"] != job["shard"] or k < job.get("start", 0):
            continue
        emit("begin", k)
        rec = {"prog": prog, "op": cnd.op, "args": cnd.args, "facts": cnd.facts}
        edittrace.set_ctx(f"{prog}|{cnd.op}({cnd.args})")
        signal.alarm(40)
        try:
            q = cnd.fn()
            signal.alarm(0)
        except BaseException as e:
            signal.alarm(0)
            rec["status"] = "rejected"
            emit("rec", rec)
            continue
        if q is None:
            rec["status"] = "rejected"
            emit("rec", rec)
            continue
        rec["status"] = "accepted"
        from .edges import _safe_str
        rec["text_a"] = _safe_str(p)
        rec["text_b"] = _safe_str(q)
        signal.alarm(120)
        try:
            check_edge(p, curs_p, q, rec)
            if job.get("implicit") and rng.random() < job["implicit"]:
                implicit(p, q, rec)
            # chains: second step, forward across two steps vs step-wise
            if job.get("depth2", 0) > 0:
                c2s = enumerate_candidates(q, ctx, ops=job.get("ops"), rich=False)
                rng2 = random.Random(f"{job['seed']}/{prog}/{cnd.op}/{cnd.args}")
                rng2.shuffle(c2s)
                done = 0
                chain_viol = []
                chain_cnt = {}
                stepwise_mism = 0
                for c2 in c2s:
                    if done >= job["depth2"]:
                        break
                    try:
                        q2 = c2.fn()
                    except BaseException:
                        continue
                    if q2 is None:
                        continue
                    done += 1
                    live2 = all_leaves(q2.INTERNAL_proc())
                    for kind, descr, c in curs_p:
                        v, det = fwd_and_judge(q2, kind, c, live2, old_all)
                        chain_cnt[v] = chain_cnt.get(v, 0) + 1
                        if v in ("wrong-statement", "dangling"):
                            chain_viol.append({"cursor": f"{kind} {descr}", "verdict": v, "detail": det,
                                               "second": f"{c2.op}({c2.args})"})
                        # step-wise forwarding must agree with forwarding across both steps
                        try:
                            a = q2.forward(c)
                            ra = ("ok", str(a._impl))
                        except Exception as e:
                            ra = ("exc", type(e).__name__)
                        try:
                            b = q2.forward(q.forward(c))
                            rb = ("ok", str(b._impl))
                        except Exception as e:
                            rb = ("exc", type(e).__name__)
                        if ra != rb and not (ra[0] == "exc" and rb[0] == "exc"):
                            stepwise_mism += 1
                            if len(chain_viol) < 6:
                                chain_viol.append({"cursor": f"{kind} {descr}", "verdict": "stepwise-differs",
                                                   "detail": f"{ra} vs {rb}", "second": f"{c2.op}({c2.args})"})
                rec["chain_counts"] = chain_cnt
                rec["chain_viols"] = chain_viol[:6]
                rec["n_chain_viol"] = len(chain_viol)
                rec["chains"] = done
            signal.alarm(0)
        except _Timeout:
            rec["status"] = "timeout"
        emit("rec", rec)
    if job.get("edit_cap"):
        emit("rec", {"prog": prog, "op": "~edits", "args": str(job["shard"]), "status": "edits",
                     "edits": edittrace.drain(), "edit_stats": edittrace.stats()})


def _on_hang(job, k):
    nj = dict(job)
    if k is None:
        return None, None
    nj["start"] = k + 1
    return {"prog": f"{job['module']}[{job['index']}]", "op": "?", "args": f"candidate {k}", "status": "hung"}, nj


def run(modules, seed, nshards=4, select=None, ops=None, depth2=0, implicit=0.0, edit_cap=0):
    from .pool import stream_pool
    from .common import MachineryError

    jobs = []
    for m in modules:
        mod = importlib.import_module(m)
        for idx, p in enumerate(mod.PROCS):
            if select is not None and not select(m, p):
                continue
            for sh in range(nshards):
                jobs.append({"module": m, "index": idx, "seed": seed, "shard": sh, "nshards": nshards, "ops": ops,
                             "depth2": depth2, "implicit": implicit, "edit_cap": edit_cap})
    recs, crashes, hangs = stream_pool(jobs, _job, NCPU, silence=240, on_hang=_on_hang)
    if crashes:
        raise MachineryError("C06 worker crashed:\n" + crashes[0][1])
    recs.sort(key=lambda e: (e["prog"], e["op"], e["args"]))
    return recs


def validate_edits(edit_recs, workdir, timeout=1500):
    """Recorded elementary edits -> spec/CursorEditTrace.tla.  -> (verdict records aligned with edit_recs, TLCResult)"""
    import json
    import os
    from .common import run_tlc, MachineryError, tlc_failure_excerpt
    if not edit_recs:
        return [], None
    path = os.path.join(workdir, "edits.json")
    with open(path, "w") as f:
        json.dump(edit_recs, f)
    r = run_tlc("CursorEditTrace", "CursorEditTrace.cfg", workdir, env={"EXO_EDITS": path}, timeout=timeout)
    if not r.ok:
        raise MachineryError("TLC failed on CursorEditTrace:\n" + tlc_failure_excerpt(r.stdout))
    out = [None] * len(edit_recs)
    for v in r.records:
        if isinstance(v, dict) and "r" in v:
            out[v["r"] - 1] = v
    if any(v is None for v in out):
        raise MachineryError("CursorEditTrace: missing verdicts")
    os.unlink(path)
    return out, r
