"""Derivation edges: apply real scheduling operations in worker processes, project (p, p') to units.

All exo objects live in the workers; the main process only sees JSON-able records:
  {prog, op, args, facts, status: "accepted" | "rejected" | "noop" | "export-error",
   exc, unit (accepted only), text_b, dedupe}
"""
from __future__ import annotations

import hashlib
import importlib
import json
import multiprocessing as mp
import os
import random
import signal
import traceback

from .common import NCPU


class _Timeout(BaseException):  # must not be swallowed by "except Exception" in oracles
    pass


def _alarm(signum, frame):
    raise _Timeout()


def _safe_str(p):
    try:
        return str(p)
    except Exception as e:  # the printer rejects the IR (e.g. a statement list that is empty): reported, not fatal
        return f"<unprintable: {type(e).__name__}: {str(e)[:120]}>"


def canon_proc_hash(unit, which):
    """canonical hash of the reference (A) or derived (B) procedure TOGETHER WITH its callees: a call statement
    only holds the callee's index, so two results that call different callees must not collapse"""
    n_a = unit.get("nA", unit[which])
    procs = unit["procs"][:n_a] if which == "A" else unit["procs"][n_a:]
    if not procs:
        procs = [unit["procs"][unit[which] - 1]]
    return hashlib.sha1(json.dumps(procs, sort_keys=True).encode()).hexdigest()


def top_proc_hash(unit, which):
    """hash of the top-level procedure alone (equal for A and B exactly when the rewrite changed nothing: callees
    shared between A and B have the same index on both sides)"""
    return hashlib.sha1(json.dumps(unit["procs"][unit[which] - 1], sort_keys=True).encode()).hexdigest()


def corpus_ctx(mod):
    return {
        "configs": getattr(mod, "CONFIGS", []),
        "subprocs": getattr(mod, "SUBPROCS", {}),
        "eqv_procs": getattr(mod, "EQV_PROCS", {}),
    }


def build_edge_unit(name, p, q, mode, rng, cap, trace=False, race=False, extra=None, max_cells=4000):
    """p, q: exo Procedure.  Returns unit (with inputs) or raises ExportError."""
    from exo.core.proc_eqv import get_strictest_eqv_proc
    from .export import make_unit
    from .inputs import gen_inputs

    pa, pb = p.INTERNAL_proc(), q.INTERNAL_proc()
    from exo.core.configs import reverse_config_lookup

    is_eqv, symkeys = get_strictest_eqv_proc(pa, pb)
    keys = [reverse_config_lookup(k) for k in symkeys]
    unit, ex = make_unit(name, pa, pb, mode=mode, modset=sorted(keys, key=lambda k: (k[0].name(), k[1])),
                         trace=trace, race=race, extra=extra)
    unit["reported_eqv"] = bool(is_eqv)
    unit["modset_names"] = sorted(f"{c.name()}.{f}" for (c, f) in keys)
    sides = gen_inputs(pa, ex.cfgtypes(), mode, rng, cap=cap, procs_for_literals=[pb], max_cells=max_cells)
    unit["inputs"] = [{"a": s} for s in sides]
    unit["features"] = sorted(ex.features)
    return unit


def _job(job, emit):
    """One worker job: corpus proc x shard of its candidates (and optionally depth-2 followers).
    Streams one record per candidate; `start` resumes after a hung candidate."""
    signal.signal(signal.SIGALRM, _alarm)
    from .gen_schedules import enumerate_candidates
    from .export import ExportError

    mod = importlib.import_module(job["module"])
    p = mod.PROCS[job["index"]]
    prog = f"{job['module'].split('.')[-1]}.{p.name()}"
    ctx = corpus_ctx(mod)
    rng = random.Random(f"{job['seed']}/{prog}/{job['shard']}")
    cands = enumerate_candidates(p, ctx, ops=job.get("ops"))
    seen = set()

    def run(c, base, baseprog, chain):
        rec = {"prog": baseprog, "op": c.op, "args": c.args, "facts": c.facts, "chain": chain}
        signal.alarm(job.get("op_timeout", 40))
        try:
            q = c.fn()
            signal.alarm(0)
        except _Timeout:
            rec["status"] = "rejected"
            rec["exc"] = "Timeout"
            return rec, None
        except Exception as e:
            signal.alarm(0)
            rec["status"] = "rejected"
            rec["exc"] = type(e).__name__
            rec["msg"] = str(e)[:200]
            return rec, None
        if q is None:
            rec["status"] = "rejected"
            rec["exc"] = "NotApplicable"
            return rec, None
        try:
            unit = build_edge_unit(f"{baseprog}|{c.op}({c.args})", base, q, job.get("mode", "F"), rng,
                                   job["cap"], trace=job.get("trace", False))
        except ExportError as e:
            rec["status"] = "export-error"
            rec["msg"] = str(e)[:200]
            return rec, q
        rec["text_a"] = _safe_str(base)
        rec["text_b"] = _safe_str(q)
        if rec["text_b"].startswith("<unprintable"):
            rec["unprintable"] = rec["text_b"]
        hb = canon_proc_hash(unit, "B")
        if top_proc_hash(unit, "B") == top_proc_hash(unit, "A"):
            rec["status"] = "noop"
            return rec, q
        rec["dedupe"] = f"{baseprog}:{canon_proc_hash(unit, 'A')}:{hb}:{','.join(unit['modset_names'])}"
        rec["status"] = "accepted"
        rec["modset"] = unit["modset_names"]
        rec["features"] = unit["features"]
        if rec["dedupe"] not in seen:
            seen.add(rec["dedupe"])
            rec["unit"] = unit
        return rec, q

    for k, c in enumerate(cands):
        if k % job["nshards"] != job["shard"] or k < job.get("start", 0):
            continue
        emit("begin", k)
        rec, q = run(c, p, prog, [])
        emit("rec", rec)
        # depth 2: follow accepted edges with a sample of second-step candidates
        if q is not None and rec["status"] == "accepted" and job.get("depth2", 0) > 0 and k != job.get("skip2"):
            try:
                c2s = enumerate_candidates(q, ctx, ops=job.get("ops2") or job.get("ops"), rich=False)
            except Exception:
                c2s = []
            rng2 = random.Random(f"{job['seed']}/{prog}/{c.op}/{c.args}")
            rng2.shuffle(c2s)
            for c2 in c2s[: job["depth2"]]:
                rec2, _ = run(c2, q, prog + "|" + c.op + "(" + c.args + ")", [c.op])
                emit("rec", rec2)


def _on_hang(job, k):
    rec = {"prog": f"{job['module'].split('.')[-1]}[{job['index']}]", "op": "?", "args": f"candidate {k}",
           "facts": {}, "chain": [], "status": "rejected", "exc": "Hang(killed)"}
    nj = dict(job)
    if k is None:
        return rec, None
    if job.get("skip2") == k or job.get("depth2", 0) == 0:
        nj["start"] = k + 1
    else:
        nj["start"] = k
        nj["skip2"] = k  # redo candidate k without its depth-2 followers
    return rec, nj


def run_jobs(jobs, procs=None, silence=150):
    """-> list of edge records.  Raises MachineryError if a worker crashed."""
    from .pool import stream_pool
    from .common import MachineryError

    recs, crashes, hangs = stream_pool(jobs, _job, procs or NCPU, silence=silence, on_hang=_on_hang)
    if crashes:
        raise MachineryError("edge worker crashed:\n" + crashes[0][1])
    return recs


def make_jobs(modules, seed, cap, nshards=4, ops=None, depth2=0, select=None, **kw):
    jobs = []
    for m in modules:
        mod = importlib.import_module(m)
        for idx, p in enumerate(mod.PROCS):
            if select is not None and not select(m, p):
                continue
            for sh in range(nshards):
                j = {"module": m, "index": idx, "shard": sh, "nshards": nshards, "seed": seed,
                     "cap": cap, "ops": ops, "depth2": depth2}
                j.update(kw)
                jobs.append(j)
    return jobs
