"""Code -> spec traces for C11: random scheduling sessions on real procedures with every
Procedure creation (decl / derive with modset) and unsafe_assert_eq recorded by wrappers; at the
end the real tracker is queried for all pairs.  Validated by spec/ProcEqvTrace.tla."""
from __future__ import annotations

import importlib
import random
import signal

from .common import NCPU


class _Timeout(BaseException):  # must not be swallowed by "except Exception" in oracles
    pass


def _alarm(signum, frame):
    raise _Timeout()


def _job(job, emit):
    signal.signal(signal.SIGALRM, _alarm)
    import exo.API as API
    from exo.core.configs import reverse_config_lookup
    from exo.core.proc_eqv import get_strictest_eqv_proc
    from .gen_schedules import enumerate_candidates
    from .edges import corpus_ctx

    events = []
    ids = {}  # LoopIR.proc (by the tracker's own notion of identity: ==/hash) -> index
    objs = []

    def pid(ir):
        if ir not in ids:
            ids[ir] = len(ids) + 1
            objs.append(ir)
            return ids[ir], True
        return ids[ir], False

    def keyname(k):
        try:
            c, f = reverse_config_lookup(k)
            return f"{c.name()}.{f}"
        except Exception:
            return repr(k)

    orig_init = API.Procedure.__init__
    orig_assert = API.Procedure.unsafe_assert_eq
    recording = [False]

    def init(self, proc, _provenance_eq_Procedure=None, _forward=None, _mod_config=None):
        orig_init(self, proc, _provenance_eq_Procedure, _forward, _mod_config)
        if not recording[0]:
            return
        ir = self._loopir_proc
        if _provenance_eq_Procedure is not None:
            po, new_o = pid(_provenance_eq_Procedure._loopir_proc)
            if new_o:
                events.append({"op": "decl", "p": po})
            pn, new_n = pid(ir)
            if new_n:
                events.append({"op": "derive", "p": po, "q": pn,
                               "K": sorted(keyname(k) for k in (_mod_config or []))})
            # else: the operation returned an already tracked procedure (a no-op rewrite): the tracker's
            # derive is then a self-union or re-union and changes nothing unless the modset is new
            elif po != pn:
                events.append({"op": "assert", "p": po, "q": pn, "K": sorted(keyname(k) for k in (_mod_config or []))})
        else:
            pn, new_n = pid(ir)
            if new_n:
                events.append({"op": "decl", "p": pn})

    def uassert(self, other):
        r = orig_assert(self, other)
        if recording[0]:
            a, na = pid(self._loopir_proc)
            b, nb = pid(other._loopir_proc)
            if a != b:
                events.append({"op": "assert", "p": a, "q": b, "K": []})
        return r

    API.Procedure.__init__ = init
    API.Procedure.unsafe_assert_eq = uassert
    try:
        mod = importlib.import_module(job["module"])
        ctx = corpus_ctx(mod)
        for sidx in range(job["sessions"]):
            emit("begin", sidx)
            rng = random.Random(f"eqvtrace/{job['seed']}/{job['module']}/{job['index']}/{sidx}")
            events.clear()
            ids.clear()
            objs.clear()
            recording[0] = True
            p0 = mod.PROCS[job["index"]]
            _, isnew = pid(p0.INTERNAL_proc())
            events.append({"op": "decl", "p": 1})
            pool = [p0]
            steps = 0
            tries = 0
            while steps < job["length"] and tries < job["length"] * 6 and len(ids) < job["maxprocs"] - 2:
                tries += 1
                base = rng.choice(pool)
                r = rng.random()
                try:
                    signal.alarm(30)
                    if r < 0.12 and len(pool) >= 2:
                        a, b = rng.sample(pool, 2)
                        sa = [str(x.type) for x in a.INTERNAL_proc().args]
                        sb = [str(x.type) for x in b.INTERNAL_proc().args]
                        if len(sa) == len(sb):
                            a.unsafe_assert_eq(b)
                            steps += 1
                    elif r < 0.2:
                        ctl = [x for x in base.INTERNAL_proc().args if not x.type.is_numeric()]
                        if ctl:
                            q = base.partial_eval(**{str(ctl[0].name): 2})
                            pool.append(q)
                            steps += 1
                    elif r < 0.25:
                        ctl = [x for x in base.INTERNAL_proc().args if x.type.is_indexable()]
                        if ctl:
                            q = base.add_assertion(f"{ctl[0].name} <= 4")
                            pool.append(q)
                            steps += 1
                    else:
                        cands = enumerate_candidates(base, ctx, rich=rng.random() < 0.5)
                        rng.shuffle(cands)
                        for c in cands[:12]:
                            try:
                                q = c.fn()
                            except _Timeout:
                                raise
                            except Exception:
                                continue
                            if q is not None:
                                pool.append(q)
                                steps += 1
                                break
                    signal.alarm(0)
                except _Timeout:
                    pass
                except Exception:
                    signal.alarm(0)
            recording[0] = False
            n = len(objs)
            if n > job["maxprocs"]:
                emit("rec", {"status": "too-big", "n": n})
                continue
            keys = sorted({k for e in events for k in e.get("K", [])})
            ans = []
            for a in objs:
                row = []
                for b in objs:
                    is_eqv, ks = get_strictest_eqv_proc(a, b)
                    row.append({"eq": bool(is_eqv), "K": sorted(keyname(k) for k in ks if keyname(k) in keys)})
                ans.append(row)
            emit("rec", {"status": "ok", "prog": f"{job['module'].split('.')[-1]}.{p0.name()}", "session": sidx,
                         "h": list(events), "n": n, "keys": keys, "ans": ans})
    finally:
        API.Procedure.__init__ = orig_init
        API.Procedure.unsafe_assert_eq = orig_assert


def run(modules, seed, sessions, length, maxprocs=12, select=None):
    from .pool import stream_pool
    from .common import MachineryError

    jobs = []
    for m in modules:
        mod = importlib.import_module(m)
        for idx, p in enumerate(mod.PROCS):
            if select is not None and not select(m, p):
                continue
            jobs.append({"module": m, "index": idx, "seed": seed, "sessions": sessions, "length": length,
                         "maxprocs": maxprocs})
    recs, crashes, hangs = stream_pool(jobs, _job, NCPU, silence=300)
    if crashes:
        raise MachineryError("eqvtrace worker crashed:\n" + crashes[0][1])
    recs = [r for r in recs if r.get("status") == "ok"]
    recs.sort(key=lambda r: (r["prog"], r["session"]))
    return recs
