---------------------------- MODULE SessionTrace ----------------------------
(***************************************************************************)
(* Scheduling sessions as a state machine (property C07, purity):          *)
(*   store   : handle -> deep fingerprint of a Procedure (tree contents    *)
(*             including every list, printed form, reachable callees)      *)
(*   cursors : cursor id -> fingerprint of what the cursor denotes         *)
(* Actions: an operation on existing handles either succeeds (adds         *)
(* handles and possibly cursors) or fails (adds nothing).  The frame       *)
(* conditions                                                              *)
(*   Immutable     == [][\A h \in DOMAIN store : store'[h] = store[h]]_v   *)
(*   CursorsStable == [][\A c \in DOMAIN cursors : cursors'[c] = cursors[c]]_v *)
(* are what "scheduling is pure" means.  This module validates recorded    *)
(* sessions: after every real operation (successful or raising) the        *)
(* recorder re-fingerprints every live procedure and cursor; an event is   *)
(* consumed only if it is a step of the state machine, i.e. only if the    *)
(* frame conditions hold for it.                                           *)
(***************************************************************************)
EXTENDS Integers, Sequences, FiniteSets, TLC, Json, IOUtils

Traces == JsonDeserialize(IOEnv.EXO_SESSIONS)

VARIABLES tid, l, store, cursors
vars == <<tid, l, store, cursors>>

T == Traces[tid]
Init == /\ tid \in 1..Len(Traces) /\ l = 1
        /\ store = Traces[tid].init.fps /\ cursors = Traces[tid].init.cfps

\* the frame conditions, evaluated between the current state and a logged observation
ImmutableStep(e) == \A h \in 1..Len(store) : e.fps[h] = store[h]
CursorsStableStep(e) == \A c \in 1..Len(cursors) : e.cfps[c] = cursors[c]
GrowthOK(e) == /\ Len(e.fps) >= Len(store) /\ Len(e.cfps) >= Len(cursors)
               /\ (~e.ok => Len(e.fps) = Len(store))       \* a failing operation defines nothing

Apply ==
  /\ l <= Len(T.events)
  /\ LET e == T.events[l] IN
       /\ ImmutableStep(e) /\ CursorsStableStep(e) /\ GrowthOK(e)
       /\ store' = e.fps /\ cursors' = e.cfps
  /\ l' = l + 1 /\ tid' = tid
Next == Apply
Spec == Init /\ [][Next]_vars

\* verdict lines: how far each session was consumed and, if it stopped, which clause rejects the next event
Diag == IF l > Len(T.events) THEN "accepted"
        ELSE LET e == T.events[l] IN
             IF ~ImmutableStep(e) THEN "Immutable"
             ELSE IF ~CursorsStableStep(e) THEN "CursorsStable"
             ELSE IF ~GrowthOK(e) THEN "Growth" ELSE "enabled"
Changed == IF l > Len(T.events) THEN << >>
           ELSE LET e == T.events[l] IN
                <<{h \in 1..Len(store) : e.fps[h] # store[h]}, {c \in 1..Len(cursors) : e.cfps[c] # cursors[c]}>>
Census == PrintT(ToJson([t |-> tid, l |-> l, d |-> Diag, ch |-> Changed]))
=============================================================================
