SPECIFICATION NavSpec
CONSTANT MaxN = 6
CONSTANT Strict = FALSE
CONSTANT ExcludeCousin = TRUE
CONSTANT EmitOn = FALSE
INVARIANT NextPrevInverse
INVARIANT EdgesInvalid
INVARIANT AnchorInverse
INVARIANT ParentChild
INVARIANT BlockCoherence
CHECK_DEADLOCK FALSE
