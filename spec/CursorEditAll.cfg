SPECIFICATION Spec
CONSTANT MaxN = 4
CONSTANT Strict = FALSE
CONSTANT ExcludeCousin = FALSE
CONSTANT EmitOn = TRUE
INVARIANT Emit
CHECK_DEADLOCK FALSE
