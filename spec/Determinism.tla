---------------------------- MODULE Determinism ----------------------------
(***************************************************************************)
(* C18 as a 2-safety property over recorded runs: every run is a sequence  *)
(* of observations <<key, step, chain, digests>>; `expected` remembers the *)
(* first observation of every (key, step).  An observation is a step of    *)
(* the specification only if it agrees with what any earlier run observed  *)
(* for the same source and schedule: the same schedule text chosen and     *)
(* byte-identical printed procedure, C and header (digests).               *)
(***************************************************************************)
EXTENDS Integers, Sequences, FiniteSets, TLC, Json, IOUtils

Runs == JsonDeserialize(IOEnv.EXO_DET_RUNS)    \* sequence of runs; a run = [cfg, obs: Seq(observation)]

VARIABLES r, l, expected
vars == <<r, l, expected>>

Key(o) == <<o.key, o.step>>
Val(o) == [chain |-> o.chain, str |-> o.str, c |-> o.c, h |-> o.h]
Init == r = 1 /\ l = 1 /\ expected = << >>
Agrees(o) == Key(o) \in DOMAIN expected => expected[Key(o)] = Val(o)
Observe ==
  /\ r <= Len(Runs) /\ l <= Len(Runs[r].obs)
  /\ LET o == Runs[r].obs[l] IN
       /\ Agrees(o)
       /\ expected' = IF Key(o) \in DOMAIN expected THEN expected ELSE (Key(o) :> Val(o)) @@ expected
  /\ l' = l + 1 /\ r' = r
NextRun == /\ r <= Len(Runs) /\ l > Len(Runs[r].obs)
           /\ r' = r + 1 /\ l' = 1 /\ UNCHANGED expected
Next == Observe \/ NextRun
Spec == Init /\ [][Next]_vars

Diag == IF r > Len(Runs) THEN [done |-> TRUE, r |-> r, l |-> l, key |-> "", step |-> 0]
        ELSE IF l > Len(Runs[r].obs) THEN [done |-> FALSE, r |-> r, l |-> l, key |-> "", step |-> 0]
        ELSE [done |-> FALSE, r |-> r, l |-> l, key |-> Runs[r].obs[l].key, step |-> Runs[r].obs[l].step]
Census == PrintT(ToJson(Diag))
=============================================================================
