---------------------------- MODULE ExoProgram ----------------------------
(***************************************************************************)
(* Static predicates on exported procedures (the JSON program              *)
(* representation of harness/export.py).                                   *)
(*                                                                         *)
(* WellScoped(pr): every use of a symbol lies in the scope of exactly one  *)
(* binder of it (argument, alloc, window statement, loop iterator) and no  *)
(* symbol is bound again while it is in scope.                             *)
(***************************************************************************)
EXTENDS Integers, Sequences, FiniteSets

RECURSIVE Uses(_)
UsesAll(es) == UNION {Uses(es[j]) : j \in 1..Len(es)}
Uses(e) ==
  CASE e.k = "v" -> {e.n}
    [] e.k = "rd" -> {e.n} \cup UsesAll(e.idx)
    [] e.k = "stride" -> {e.n}
    [] e.k = "neg" -> Uses(e.a)
    [] e.k = "ext" -> UsesAll(e.args)
    [] e.k = "bin" -> Uses(e.l) \cup Uses(e.r)
    [] e.k = "win" -> {e.n} \cup UNION {IF e.acc[j].k = "pt" THEN Uses(e.acc[j].pt)
                                        ELSE Uses(e.acc[j].lo) \cup Uses(e.acc[j].hi)
                                        : j \in 1..Len(e.acc)}
    [] OTHER -> {}

\* statements i.. of block b of pr, with `bound` the symbols in scope
RECURSIVE WSFrom(_, _, _, _)
WSFrom(pr, b, i, bound) ==
  IF i > Len(pr.blocks[b]) THEN TRUE
  ELSE LET s == pr.blocks[b][i] IN
    CASE s.k \in {"assign", "reduce"} ->
           /\ s.n \in bound /\ UsesAll(s.idx) \subseteq bound /\ Uses(s.rhs) \subseteq bound
           /\ WSFrom(pr, b, i + 1, bound)
      [] s.k = "wcfg" -> Uses(s.rhs) \subseteq bound /\ WSFrom(pr, b, i + 1, bound)
      [] s.k = "pass" -> WSFrom(pr, b, i + 1, bound)
      [] s.k = "if" ->
           /\ Uses(s.cond) \subseteq bound
           /\ WSFrom(pr, s.body, 1, bound)
           /\ (s.orelse = 0 \/ WSFrom(pr, s.orelse, 1, bound))
           /\ WSFrom(pr, b, i + 1, bound)
      [] s.k = "for" ->
           /\ Uses(s.lo) \subseteq bound /\ Uses(s.hi) \subseteq bound
           /\ s.it \notin bound
           /\ WSFrom(pr, s.body, 1, bound \cup {s.it})
           /\ WSFrom(pr, b, i + 1, bound)
      [] s.k = "alloc" ->
           /\ UsesAll(s.shape) \subseteq bound /\ s.n \notin bound
           /\ WSFrom(pr, b, i + 1, bound \cup {s.n})
      [] s.k = "free" -> s.n \in bound /\ WSFrom(pr, b, i + 1, bound)
      [] s.k = "winstmt" ->
           /\ Uses(s.rhs) \subseteq bound /\ s.n \notin bound
           /\ WSFrom(pr, b, i + 1, bound \cup {s.n})
      [] s.k = "call" -> UsesAll(s.args) \subseteq bound /\ WSFrom(pr, b, i + 1, bound)

ArgNames(pr) == {pr.args[j].n : j \in 1..Len(pr.args)}
WellScoped(pr) ==
  /\ Cardinality(ArgNames(pr)) = Len(pr.args)
  /\ \A j \in 1..Len(pr.args) : UsesAll(pr.args[j].shape) \subseteq ArgNames(pr)
  /\ \A j \in 1..Len(pr.preds) : Uses(pr.preds[j]) \subseteq ArgNames(pr)
  /\ WSFrom(pr, pr.entry, 1, ArgNames(pr))
=============================================================================
