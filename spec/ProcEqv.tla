---------------------------- MODULE ProcEqv ----------------------------
(***************************************************************************)
(* Procedure-equivalence tracking (exo.core.proc_eqv).                      *)
(*                                                                         *)
(* Abstract relation (the property C11): `steps` is the set of recorded    *)
(* derivation / assertion steps <<p, q, K>>; for every configuration field *)
(* f (every key, plus "other" standing for all fields never mentioned) R_f *)
(* is the reflexive-symmetric-transitive closure of the steps whose modset *)
(* does not contain f; p and q are equivalent modulo K iff <<p,q>> is in   *)
(* R_f for every f outside K.                                              *)
(*                                                                         *)
(* Implementation-shaped state: the union-finds ufUnv, ufStrict and ufKey  *)
(* (one per key *known so far*; a key first mentioned late gets a copy of  *)
(* ufUnv, exactly as new_uf_by_eqv_key does).                              *)
(*                                                                         *)
(* Refines / StrictestOK: the implementation's answers equal the abstract  *)
(* relation for every query; NeverAcrossOrigins: procedures of different   *)
(* origin are never equivalent.  Every explored state is emitted with one  *)
(* witness history and the expected answers, and replayed on the real      *)
(* module by harness/replay_eqv.py.                                        *)
(***************************************************************************)
EXTENDS Integers, Sequences, FiniteSets, TLC, Json
CONSTANTS NP, Keys, MaxSteps, EmitOn
Procs == 1..NP

VARIABLES declared, steps, ufUnv, ufStrict, ufKey, hist
vars == <<declared, steps, ufUnv, ufStrict, ufKey, hist>>

\* ---- union-find as parent maps (find without path compression is enough for the relation) ----
RECURSIVE Find(_, _)
Find(uf, x) == IF uf[x] = x THEN x ELSE Find(uf, uf[x])
Union(uf, a, b) == LET pa == Find(uf, a)
                       pb == Find(uf, b)
                   IN IF pa = pb THEN uf ELSE [uf EXCEPT ![pb] = pa]
Same(uf, a, b) == Find(uf, a) = Find(uf, b)
AddNode(uf, p) == IF p \in DOMAIN uf THEN uf ELSE (p :> p) @@ uf

Init == /\ declared = {} /\ steps = {} /\ hist = << >>
        /\ ufUnv = << >> /\ ufStrict = << >> /\ ufKey = << >>

DeclAll(p) ==
  /\ declared' = declared \cup {p}
  /\ ufUnv' = AddNode(ufUnv, p) /\ ufStrict' = AddNode(ufStrict, p)
  /\ ufKey' = [k \in DOMAIN ufKey |-> AddNode(ufKey[k], p)]

NextId == Cardinality(declared) + 1
DeclNew(p) == /\ p \notin declared /\ p = NextId /\ DeclAll(p)
              /\ steps' = steps /\ hist' = Append(hist, [op |-> "decl", p |-> p])

\* assert_eqv_proc on already-declared procs (given uf's), returns new triple
AssertOn(unv, strict, keyd, p, q, K) ==
  LET keyd1 == [k \in DOMAIN keyd \cup K |-> IF k \in DOMAIN keyd THEN keyd[k] ELSE unv]  \* lazy copy of Unv
      strict1 == IF K = {} THEN Union(strict, p, q) ELSE strict
      unv1 == Union(unv, p, q)
      keyd2 == [k \in DOMAIN keyd1 |-> IF k \notin K THEN Union(keyd1[k], p, q) ELSE keyd1[k]]
  IN <<unv1, strict1, keyd2>>

Derive(p, q, K) ==
  /\ p \in declared /\ q \notin declared /\ q = NextId
  /\ LET r == AssertOn(AddNode(ufUnv, q), AddNode(ufStrict, q),
                       [k \in DOMAIN ufKey |-> AddNode(ufKey[k], q)], p, q, K)
     IN ufUnv' = r[1] /\ ufStrict' = r[2] /\ ufKey' = r[3]
  /\ declared' = declared \cup {q}
  /\ steps' = steps \cup {<<p, q, K>>}
  /\ hist' = Append(hist, [op |-> "derive", p |-> p, q |-> q, K |-> K])

\* assert_eqv_proc on two known procedures.  K = {} is unsafe_assert_eq; a non-empty K arises when a
\* rewrite returns an already tracked procedure (derive_proc onto a known node)
AssertEqK(p, q, K) ==
  /\ p \in declared /\ q \in declared /\ p # q
  /\ LET r == AssertOn(ufUnv, ufStrict, ufKey, p, q, K)
     IN ufUnv' = r[1] /\ ufStrict' = r[2] /\ ufKey' = r[3]
  /\ declared' = declared
  /\ steps' = steps \cup {<<p, q, K>>}
  /\ hist' = Append(hist, [op |-> "assert", p |-> p, q |-> q, K |-> K])
AssertEq(p, q) == AssertEqK(p, q, {})

Next == /\ Len(hist) < MaxSteps
        /\ \/ \E p \in Procs : DeclNew(p)
           \/ \E p, q \in Procs, K \in SUBSET Keys : Derive(p, q, K)
           \/ \E p, q \in Procs, K \in SUBSET Keys : AssertEqK(p, q, K)
Spec == Init /\ [][Next]_vars

\* ---- implementation answers ----
ImplCheck(p, q, K) == /\ Same(ufUnv, p, q)
                      /\ \A k \in DOMAIN ufKey : k \notin K => Same(ufKey[k], p, q)
ImplStrictest(p, q) == <<Same(ufUnv, p, q),
                         IF Same(ufUnv, p, q) THEN {k \in DOMAIN ufKey : ~Same(ufKey[k], p, q)} ELSE {}>>

\* ---- abstract per-field closure ----
RECURSIVE Reach(_, _, _)
Reach(E, S, n) == IF n = 0 THEN S
                  ELSE Reach(E, S \cup {y \in declared : \E x \in S : <<x, y>> \in E \/ <<y, x>> \in E}, n - 1)
ConnAvoiding(f, p, q) ==   \* f is a key or "other" (a field never mentioned)
  LET E == { <<s[1], s[2]>> : s \in {t \in steps : f \notin t[3]} }
  IN q \in Reach(E, {p}, NP)
AbsEqv(p, q, K) == \A f \in (Keys \cup {"other"}) \ K : ConnAvoiding(f, p, q)

Refines ==
  \A p, q \in declared : \A K \in SUBSET Keys : ImplCheck(p, q, K) <=> AbsEqv(p, q, K)
StrictestOK ==
  \A p, q \in declared :
     LET r == ImplStrictest(p, q) IN
     /\ r[1] <=> AbsEqv(p, q, Keys)
     /\ r[1] => (AbsEqv(p, q, r[2]) /\ \A K \in SUBSET Keys : AbsEqv(p, q, K) => r[2] \subseteq K)
\* origin of a procedure: the DeclNew-created procedure it descends from / was asserted equal to
Origin(p) == CHOOSE r \in declared : r \in Reach({<<t[1], t[2]>> : t \in steps}, {p}, NP)
                                      /\ \A r2 \in Reach({<<t[1], t[2]>> : t \in steps}, {p}, NP) : r <= r2
NeverAcrossOrigins ==
  \A p, q \in declared : Origin(p) # Origin(q) => \A K \in SUBSET Keys : ~ImplCheck(p, q, K)

View == <<declared, steps, ufUnv, ufStrict, ufKey>>
KeySeq(K) == LET RECURSIVE S(_)
                 S(X) == IF X = {} THEN << >> ELSE LET k == CHOOSE k \in X : TRUE IN <<k>> \o S(X \ {k})
             IN S(K)
HistJ == [j \in 1..Len(hist) |->
            IF hist[j].op \in {"derive", "assert"}
            THEN [op |-> hist[j].op, p |-> hist[j].p, q |-> hist[j].q, K |-> KeySeq(hist[j].K)]
            ELSE hist[j]]
\* expected answers: for every ordered pair, the strictest set (or "no" when not equivalent at all)
Emit == EmitOn =>
  PrintT(ToJson([h |-> HistJ,
                 n |-> Cardinality(declared),
                 ans |-> [p \in declared |-> [q \in declared |->
                            IF AbsEqv(p, q, Keys) THEN [eq |-> TRUE, K |-> KeySeq({k \in Keys : ~ConnAvoiding(k, p, q)})]
                            ELSE [eq |-> FALSE, K |-> << >>]]]]))
=====================================================================
