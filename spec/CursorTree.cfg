SPECIFICATION NavSpec
CONSTANT MaxN = 4
CONSTANT Strict = FALSE
CONSTANT ExcludeCousin = TRUE
CONSTANT EmitOn = TRUE
INVARIANT NextPrevInverse
INVARIANT EdgesInvalid
INVARIANT AnchorInverse
INVARIANT ParentChild
INVARIANT BlockCoherence
INVARIANT EmitNav
CHECK_DEADLOCK FALSE
