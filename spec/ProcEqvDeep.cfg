SPECIFICATION Spec
CONSTANTS NP = 4
          Keys = {"x", "y"}
          MaxSteps = 6
          EmitOn = FALSE
INVARIANT Refines
INVARIANT StrictestOK
INVARIANT NeverAcrossOrigins
CHECK_DEADLOCK FALSE
VIEW View
