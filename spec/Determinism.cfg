SPECIFICATION Spec
INVARIANT Census
CHECK_DEADLOCK FALSE
