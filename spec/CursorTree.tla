---------------------------- MODULE CursorTree ----------------------------
(***************************************************************************)
(* Cursor navigation over labelled statement trees (exo.API_cursors:       *)
(* parent, next/prev, before/after/anchor, body/orelse, as_block, block    *)
(* indexing, slicing, expand).  Navigation is specified on paths; the      *)
(* coherence laws of property C16 are invariants checked for every tree up *)
(* to MaxN nodes and every cursor; every navigation result is emitted and  *)
(* replayed on real API cursors by harness/replay_nav.py.                  *)
(***************************************************************************)
EXTENDS CursorEdit

Sibs(p) == Attr(NodeAt(tree, Parent(p)), Last(p)[1])
Idx(p) == Last(p)[2]
At(p, i) == Parent(p) \o << <<Last(p)[1], i>> >>

NParent(c) == IF Len(c.p) <= 1 THEN Inv ELSE NodeC(Parent(c.p))
NNext(c, d) == LET i == Idx(c.p) + d IN
               IF i >= 0 /\ i < Len(Sibs(c.p)) THEN NodeC(At(c.p, i)) ELSE Inv
NBefore(c) == GapC(c.p, "before")
NAfter(c) == GapC(c.p, "after")
GAnchor(g) == NodeC(g.p)
Kind(c) == NodeAt(tree, c.p).kind
NBody(c) == IF Kind(c) \in {"for", "if"} THEN BlockC(c.p, "body", 0, Len(NodeAt(tree, c.p).body)) ELSE Inv
NOrelse(c) == IF Kind(c) = "if" /\ Len(NodeAt(tree, c.p).orelse) > 0
              THEN BlockC(c.p, "orelse", 0, Len(NodeAt(tree, c.p).orelse)) ELSE Inv
NAsBlock(c) == BlockC(Parent(c.p), Last(c.p)[1], Idx(c.p), Idx(c.p) + 1)

BLen(b) == b.hi - b.lo
BFull(b) == Len(Attr(NodeAt(tree, b.p), b.a))
BIndex(b, k) == IF k >= 0 /\ k < BLen(b) THEN NodeC(b.p \o << <<b.a, b.lo + k>> >>) ELSE Inv
BSlice(b, i, j) == BlockC(b.p, b.a, b.lo + i, b.lo + j)
Max2(x, y) == IF x > y THEN x ELSE y
Min2(x, y) == IF x < y THEN x ELSE y
\* expand: a bound of -1 stands for None (as far as possible)
BExpand(b, dlo, dhi) ==
  LET lo == IF dlo < 0 THEN 0 ELSE Max2(0, b.lo - dlo)
      hi == IF dhi < 0 THEN BFull(b) ELSE Min2(BFull(b), b.hi + dhi)
  IN BlockC(b.p, b.a, lo, hi)
BBefore(b) == GapC(b.p \o << <<b.a, b.lo>> >>, "before")
BAfter(b) == GapC(b.p \o << <<b.a, b.hi - 1>> >>, "after")
BParent(b) == IF b.p = << >> THEN Inv ELSE NodeC(b.p)

Nodes == NodeCursors(tree)
Blocks == { c \in BlockCursors(tree) : ValidBlock(c) }

\* ---- coherence laws (C16)
NextPrevInverse ==
  \A c \in Nodes : \A d \in 1..2 :
     /\ (NNext(c, d) # Inv => NNext(NNext(c, d), 0 - d) = c)
     /\ (NNext(c, 0 - d) # Inv => NNext(NNext(c, 0 - d), d) = c)
EdgesInvalid ==
  \A c \in Nodes : /\ (NNext(c, 1) = Inv <=> Idx(c.p) = Len(Sibs(c.p)) - 1)
                   /\ (NNext(c, 0 - 1) = Inv <=> Idx(c.p) = 0)
AnchorInverse == \A c \in Nodes : GAnchor(NBefore(c)) = c /\ GAnchor(NAfter(c)) = c
ParentChild ==
  \A c \in Nodes :
     /\ (NBody(c) # Inv => \A k \in 0..(BLen(NBody(c)) - 1) : NParent(BIndex(NBody(c), k)) = c)
     /\ (NOrelse(c) # Inv => \A k \in 0..(BLen(NOrelse(c)) - 1) : NParent(BIndex(NOrelse(c), k)) = c)
     /\ (NParent(c) # Inv => \E k \in 0..BFull(NAsBlock(c)) : BIndex(BExpand(NAsBlock(c), 0 - 1, 0 - 1), k) = c)
BlockCoherence ==
  /\ \A c \in Nodes : BExpand(NAsBlock(c), 0, 0) = NAsBlock(c) /\ BIndex(NAsBlock(c), 0) = c
  /\ \A b \in Blocks :
       /\ \A i \in 0..(BLen(b) - 1) : \A j \in (i + 1)..BLen(b) :
             \A k \in 0..(j - i - 1) : BIndex(BSlice(b, i, j), k) = BIndex(b, i + k)
       /\ BExpand(b, 0 - 1, 0 - 1) = BlockC(b.p, b.a, 0, BFull(b))
       /\ BSlice(BExpand(b, 1, 1), b.lo - BExpand(b, 1, 1).lo, b.hi - BExpand(b, 1, 1).lo) = b
       /\ GAnchor(BBefore(b)) = BIndex(b, 0) /\ GAnchor(BAfter(b)) = BIndex(b, BLen(b) - 1)

NavInit == tree \in Roots /\ edit = [k |-> "none"] /\ ntree = tree /\ done = FALSE
NavNext == UNCHANGED vars
NavSpec == NavInit /\ [][NavNext]_vars

\* ---- emission of every navigation result for replay
NavResults ==
  { [c |-> c, op |-> "parent", a |-> <<>>, r |-> NParent(c)] : c \in Nodes }
  \cup { [c |-> c, op |-> "next", a |-> <<d>>, r |-> NNext(c, d)] : c \in Nodes, d \in {1, 2} }
  \cup { [c |-> c, op |-> "prev", a |-> <<d>>, r |-> NNext(c, 0 - d)] : c \in Nodes, d \in {1, 2} }
  \cup { [c |-> c, op |-> "before_anchor", a |-> <<>>, r |-> GAnchor(NBefore(c))] : c \in Nodes }
  \cup { [c |-> c, op |-> "after_anchor", a |-> <<>>, r |-> GAnchor(NAfter(c))] : c \in Nodes }
  \cup { [c |-> c, op |-> "body", a |-> <<>>, r |-> NBody(c)] : c \in {x \in Nodes : Kind(x) \in {"for", "if"}} }
  \cup { [c |-> c, op |-> "orelse", a |-> <<>>, r |-> NOrelse(c)] : c \in {x \in Nodes : Kind(x) = "if"} }
  \cup { [c |-> c, op |-> "as_block", a |-> <<>>, r |-> NAsBlock(c)] : c \in Nodes }
  \cup { [c |-> b, op |-> "index", a |-> <<k>>, r |-> BIndex(b, k)] : b \in Blocks, k \in 0..3 }
  \cup UNION { { [c |-> b, op |-> "slice", a |-> <<i, j>>, r |-> BSlice(b, i, j)] :
                   i \in 0..(BLen(b) - 1), j \in 1..BLen(b) } : b \in Blocks }
  \cup { [c |-> b, op |-> "expand", a |-> <<dl, dh>>, r |-> BExpand(b, dl, dh)] :
           b \in Blocks, dl \in {0 - 1, 0, 1, 2}, dh \in {0 - 1, 0, 1} }
  \cup { [c |-> b, op |-> "block_before", a |-> <<>>, r |-> BBefore(b)] : b \in Blocks }
  \cup { [c |-> b, op |-> "block_after", a |-> <<>>, r |-> BAfter(b)] : b \in Blocks }
  \cup { [c |-> b, op |-> "block_parent", a |-> <<>>, r |-> BParent(b)] : b \in Blocks }
GoodSlice(x) == x.op # "slice" \/ x.a[1] < x.a[2]
EmitNav == EmitOn => PrintT(ToJson([tree |-> tree, nav |-> {x \in NavResults : GoodSlice(x)}]))
=============================================================================
