SPECIFICATION Spec
CONSTANT MaxN = 4
CONSTANT Strict = FALSE
CONSTANT ExcludeCousin = TRUE
CONSTANT EmitOn = TRUE
INVARIANT FwdSound
INVARIANT FwdComplete
INVARIANT Emit
CHECK_DEADLOCK FALSE
