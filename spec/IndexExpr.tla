---------------------------- MODULE IndexExpr ----------------------------
(***************************************************************************)
(* Quasi-affine index expressions with floor division / modulo, interval   *)
(* environments with possibly unknown ends, and the containment of a       *)
(* claimed range:  for every valuation admitted by the environment,        *)
(*     base + lo <= e <= base + hi      (unknown ends claim nothing).      *)
(* Used as the oracle for claims logged from the real range analysis       *)
(* (C13) and for before/after expression pairs of simplify (C12).          *)
(***************************************************************************)
EXTENDS Integers, Sequences, FiniteSets, TLC, Json, IOUtils

Claims == JsonDeserialize(IOEnv.EXO_CLAIMS)

VARIABLES cid
Init == cid \in 1..Len(Claims)
Next == UNCHANGED cid
Spec == Init /\ [][Next]_cid

RECURSIVE Eval(_, _)
Eval(e, val) ==
  CASE e.k = "c" -> e.v
    [] e.k = "v" -> val[e.n]
    [] e.k = "neg" -> 0 - Eval(e.a, val)
    [] e.k = "bin" -> LET a == Eval(e.l, val)
                          b == Eval(e.r, val)
                      IN CASE e.op = "+" -> a + b
                           [] e.op = "-" -> a - b
                           [] e.op = "*" -> a * b
                           [] e.op = "/" -> a \div b
                           [] e.op = "%" -> a % b

\* boolean structure over index expressions (procedure assertions): comparisons, and, or, boolean constants
RECURSIVE EvalB(_, _)
EvalB(b, val) ==
  CASE b.k = "cb" -> b.v
    [] b.k = "cmp" -> LET x == Eval(b.l, val)
                          y == Eval(b.r, val)
                      IN CASE b.op = "<" -> x < y [] b.op = ">" -> x > y [] b.op = "<=" -> x <= y
                           [] b.op = ">=" -> x >= y [] b.op = "==" -> x = y
    [] b.k = "and" -> EvalB(b.l, val) /\ EvalB(b.r, val)
    [] b.k = "or" -> EvalB(b.l, val) \/ EvalB(b.r, val)

\* env: seq of [n, haslo, lo, hashi, hi]; W: half-width of the window explored for unknown ends
Vals(env, W) ==
  LET names == {env[j].n : j \in 1..Len(env)}
      R(n) == LET r == env[CHOOSE j \in 1..Len(env) : env[j].n = n]
                  lo == IF r.haslo THEN r.lo ELSE (IF r.hashi THEN r.hi - 2 * W ELSE 0 - W)
                  hi == IF r.hashi THEN r.hi ELSE (IF r.haslo THEN r.lo + 2 * W ELSE W)
              IN lo..(IF hi > lo + 2 * W THEN lo + 2 * W ELSE hi)
  IN [n \in names |-> R(n)]
RECURSIVE ProdOf(_, _)
ProdOf(rs, ns) == IF ns = {} THEN { << >> }
                  ELSE LET n == CHOOSE n \in ns : TRUE
                       IN { (n :> v) @@ f : v \in rs[n], f \in ProdOf(rs, ns \ {n}) }
AllVals(env, W) == LET rs == Vals(env, W) IN ProdOf(rs, DOMAIN rs)

\* kind "range": containment; kind "eq": two expressions agree (C12 pairs); kind "cmp": claimed comparison
Bad(c) ==
  {val \in AllVals(c.env, c.w) :
     IF c.kind = "range"
     THEN LET x == Eval(c.e, val)
              b == Eval(c.base, val)
          IN ~((c.haslo => b + c.lo <= x) /\ (c.hashi => x <= b + c.hi))
     ELSE IF c.kind = "eq" THEN Eval(c.e, val) # Eval(c.e2, val)
     \* kind "argrange": the range claimed for a procedure argument must contain every value of that argument in
     \* every valuation of the arguments that satisfies the procedure's assertions (c.preds)
     ELSE IF c.kind = "argrange"
     THEN /\ \A j \in 1..Len(c.preds) : EvalB(c.preds[j], val)
          /\ ~((c.haslo => c.lo <= Eval(c.e, val)) /\ (c.hashi => Eval(c.e, val) <= c.hi))
     ELSE FALSE}
Holds(c) == Bad(c) = {}
Census == PrintT(ToJson([c |-> cid, ok |-> Holds(Claims[cid]),
                         cex |-> IF Holds(Claims[cid]) THEN << >> ELSE <<CHOOSE v \in Bad(Claims[cid]) : TRUE>>]))
=============================================================================
