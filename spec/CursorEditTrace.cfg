SPECIFICATION TSpec
CONSTANTS
  MaxN = 1
  Strict = FALSE
  ExcludeCousin = TRUE
  EmitOn = FALSE
INVARIANT Census
CHECK_DEADLOCK FALSE
