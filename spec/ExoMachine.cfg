SPECIFICATION Spec
INVARIANT Census
CONSTRAINT Bounded
CHECK_DEADLOCK FALSE
