SPECIFICATION Spec
CONSTANTS NP = 4
          Keys = {"x", "y"}
          MaxSteps = 5
          EmitOn = TRUE
INVARIANT Refines
INVARIANT StrictestOK
INVARIANT NeverAcrossOrigins
INVARIANT Emit
CHECK_DEADLOCK FALSE
VIEW View
