SPECIFICATION Spec
INVARIANT NoViolation
CONSTRAINT Bounded
CHECK_DEADLOCK FALSE
