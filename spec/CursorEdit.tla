---------------------------- MODULE CursorEdit ----------------------------
(***************************************************************************)
(* Labelled statement trees, cursors (node / block / gap), the elementary  *)
(* edits of exo.core.internal_cursors (insert, replace, delete, wrap,      *)
(* move) and their forwarding functions, written with the same case        *)
(* analysis as _local_forward / _forward_insert / _forward_replace /       *)
(* _forward_wrap / _forward_move.                                          *)
(*                                                                         *)
(* The properties are label based and independent of that case analysis:   *)
(*   FwdSound    - a forwarded cursor is Invalid or resolves in the new    *)
(*                 tree and denotes the same statement(s) (DESIGN C06)     *)
(*   FwdComplete - a node/gap cursor becomes Invalid only if its statement *)
(*                 is gone                                                 *)
(* Every explored transition is emitted (Emit) and replayed on the real    *)
(* internal_cursors objects by harness/replay_cursor.py, which requires    *)
(* the code's new tree and forwarded cursors to equal the spec's.          *)
(***************************************************************************)
EXTENDS Integers, Sequences, FiniteSets, TLC, Json

CONSTANT MaxN, Strict, ExcludeCousin, EmitOn

\* ---------- tree generation ----------
Leaf == [lab |-> 0, kind |-> "s", body |-> << >>, orelse |-> << >>]

RECURSIVE ForestsOf(_), TreesOf(_)
ForestsOf(n) ==
  IF n = 0 THEN { << >> }
  ELSE UNION { { <<t>> \o f : t \in TreesOf(k), f \in ForestsOf(n - k) } : k \in 1..n }
TreesOf(k) ==
  IF k = 1 THEN { Leaf }
  ELSE { [lab |-> 0, kind |-> "for", body |-> b, orelse |-> << >>] : b \in ForestsOf(k - 1) }
       \cup UNION { { [lab |-> 0, kind |-> "if", body |-> b, orelse |-> e] :
                        b \in ForestsOf(j), e \in ForestsOf(k - 1 - j) } : j \in 1..(k - 1) }

\* preorder relabel: returns <<forest, next>>
RECURSIVE LabF(_, _), LabT(_, _)
LabT(t, n) ==
  LET b == LabF(t.body, n + 1)
      e == LabF(t.orelse, b[2])
  IN << [lab |-> n, kind |-> t.kind, body |-> b[1], orelse |-> e[1]], e[2] >>
LabF(f, n) ==
  IF f = << >> THEN << << >>, n >>
  ELSE LET h == LabT(Head(f), n)
           r == LabF(Tail(f), h[2])
       IN << <<h[1]>> \o r[1], r[2] >>

Roots == { [lab |-> 0, kind |-> "proc", body |-> LabF(f, 1)[1], orelse |-> << >>] :
             f \in UNION { ForestsOf(n) : n \in 1..MaxN } }

\* ---------- access ----------
Attr(t, a) == IF a = "body" THEN t.body ELSE t.orelse

RECURSIVE NodeAt(_, _)
NodeAt(t, p) == IF p = << >> THEN t
                ELSE NodeAt(Attr(t, p[1][1])[p[1][2] + 1], Tail(p))

RECURSIVE Resolves(_, _)
Resolves(t, p) == IF p = << >> THEN TRUE
                  ELSE LET ch == Attr(t, p[1][1]) IN
                       /\ p[1][2] >= 0 /\ p[1][2] < Len(ch)
                       /\ Resolves(ch[p[1][2] + 1], Tail(p))

\* all node paths of a tree (excluding root)
RECURSIVE PathsT(_, _), PathsF(_, _, _)
PathsF(f, pre, a) == UNION { PathsT(f[i], pre \o << <<a, i - 1>> >>) : i \in 1..Len(f) }
PathsT(t, p) == {p} \cup PathsF(t.body, p, "body") \cup PathsF(t.orelse, p, "orelse")
AllPaths(root) == PathsF(root.body, << >>, "body")

RECURSIVE Labels(_)
LabelsF(f) == UNION { Labels(f[i]) : i \in 1..Len(f) }
Labels(t) == {t.lab} \cup UNION { Labels(t.body[i]) : i \in 1..Len(t.body) }
                     \cup UNION { Labels(t.orelse[i]) : i \in 1..Len(t.orelse) }

\* replace children [lo,hi) (0-based half-open) of attr a of node at path p by seq ns
RECURSIVE Splice(_, _, _, _, _, _)
Splice(t, p, a, lo, hi, ns) ==
  IF p = << >>
  THEN LET ch == Attr(t, a)
           nch == SubSeq(ch, 1, lo) \o ns \o SubSeq(ch, hi + 1, Len(ch))
       IN IF a = "body" THEN [t EXCEPT !.body = nch] ELSE [t EXCEPT !.orelse = nch]
  ELSE LET a1 == p[1][1]
           i1 == p[1][2] + 1
           sub == Splice(Attr(t, a1)[i1], Tail(p), a, lo, hi, ns)
       IN IF a1 = "body" THEN [t EXCEPT !.body[i1] = sub] ELSE [t EXCEPT !.orelse[i1] = sub]

\* ---------- cursors ----------
Inv == [t |-> "x"]
NodeC(p) == [t |-> "n", p |-> p]
BlockC(p, a, lo, hi) == [t |-> "b", p |-> p, a |-> a, lo |-> lo, hi |-> hi]
GapC(p, side) == [t |-> "g", p |-> p, side |-> side]

Parent(p) == SubSeq(p, 1, Len(p) - 1)
Last(p) == p[Len(p)]
StartsWith(p, q) == Len(p) >= Len(q) /\ SubSeq(p, 1, Len(q)) = q

NodeCursors(root) == { NodeC(p) : p \in AllPaths(root) }
GapCursors(root) == { GapC(p, s) : p \in AllPaths(root), s \in {"before", "after"} }
BlockCursors(root) ==
  UNION { UNION { { BlockC(p, a, lo, hi) : lo \in 0..(Len(Attr(NodeAt(root, p), a)) - 1),
                                          hi \in 1..Len(Attr(NodeAt(root, p), a)) } :
                  a \in {"body", "orelse"} } : p \in AllPaths(root) \cup { << >> } }
ValidBlock(c) == c.lo < c.hi
Cursors(root) == NodeCursors(root) \cup GapCursors(root)
                 \cup { c \in BlockCursors(root) : ValidBlock(c) }

\* ---------- local forwarding (mirrors Cursor._local_forward) ----------
\* FN(i)  -> seq of path elems, or "inv";  FB(lo,hi) -> [pre, a, lo, hi] or "inv"
LocalFwdNode(ep, attr, FN(_), p) ==
  LET d == Len(ep) IN
  IF Len(p) < d + 1 THEN NodeC(p)
  ELSE IF ~(StartsWith(p, ep) /\ p[d + 1][1] = attr) THEN NodeC(p)
  ELSE LET r == FN(p[d + 1][2]) IN
       IF ~r.ok THEN Inv
       ELSE NodeC(SubSeq(p, 1, d) \o r.v \o SubSeq(p, d + 2, Len(p)))

LocalFwd(ep, attr, FN(_), FB(_, _), c) ==
  CASE c.t = "n" -> LocalFwdNode(ep, attr, FN, c.p)
    [] c.t = "g" -> LET a == LocalFwdNode(ep, attr, FN, c.p) IN
                    IF a = Inv THEN Inv ELSE GapC(a.p, c.side)
    [] c.t = "b" -> IF c.p = ep /\ c.a = attr
                    THEN LET r == FB(c.lo, c.hi) IN
                         IF ~r.ok THEN Inv
                         ELSE BlockC(c.p \o r.pre, r.a, r.lo, r.hi)
                    ELSE LET a == LocalFwdNode(ep, attr, FN, c.p) IN
                         IF a = Inv THEN Inv ELSE BlockC(a.p, c.a, c.lo, c.hi)
    [] OTHER -> Inv

\* ---------- edits ----------
Fresh(n, k) == [j \in 1..k |-> [lab |-> n + j, kind |-> "s", body |-> << >>, orelse |-> << >>]]
MaxLab(root) == CHOOSE m \in Labels(root) : \A l \in Labels(root) : l <= m

\* Insert k fresh stmts at gap (anchor path ap, side)
InsIdx(g) == IF g.side = "before" THEN Last(g.p)[2] ELSE Last(g.p)[2] + 1
InsertTree(root, g, k) ==
  Splice(root, Parent(g.p), Last(g.p)[1], InsIdx(g), InsIdx(g), Fresh(MaxLab(root), k))
InsertFwd(g, k, c) ==
  LET ii == InsIdx(g)
      Upd(i) == IF i >= ii THEN i + k ELSE i
      FN(i) == [ok |-> TRUE, v |-> << <<Last(g.p)[1], Upd(i)>> >>]
      FB(lo, hi) == [ok |-> TRUE, pre |-> << >>, a |-> Last(g.p)[1], lo |-> Upd(lo), hi |-> Upd(hi - 1) + 1]
  IN LocalFwd(Parent(g.p), Last(g.p)[1], FN, FB, c)

\* Replace block b by k fresh stmts (k = 0 is delete WITHOUT pass-default here)
IsSubRange(alo, ahi, blo, bhi) == alo >= blo /\ ahi <= bhi /\ ~(alo = blo /\ ahi = bhi)
PartIsct(alo, ahi, blo, bhi) == (alo < blo /\ blo < ahi /\ ahi < bhi) \/ (blo < alo /\ alo < bhi /\ bhi < ahi)
ReplaceTree(root, b, k) == Splice(root, b.p, b.a, b.lo, b.hi, Fresh(MaxLab(root), k))
ReplaceFwd(b, k, c) ==
  LET diff == k - (b.hi - b.lo)
      Upd(i) == IF i >= b.hi THEN i + diff ELSE i
      FN(i) == IF i >= b.lo /\ i < b.hi THEN [ok |-> FALSE] ELSE [ok |-> TRUE, v |-> << <<b.a, Upd(i)>> >>]
      FB(lo, hi) == IF PartIsct(lo, hi, b.lo, b.hi) \/ IsSubRange(lo, hi, b.lo, b.hi) THEN [ok |-> FALSE]
                    ELSE [ok |-> TRUE, pre |-> << >>, a |-> b.a, lo |-> Upd(lo), hi |-> Upd(hi)]
  IN LocalFwd(b.p, b.a, FN, FB, c)

\* Wrap block b into a fresh node of kind `kind` (children under attribute wa); the exhaustive model
\* uses "for"/"body", trace validation (CursorEditTrace) the wrapper the code actually built
WrapTreeK(root, b, kind, wa, other) ==
  LET ch == Attr(NodeAt(root, b.p), b.a)
      inner == SubSeq(ch, b.lo + 1, b.hi)
      w == [lab |-> MaxLab(root) + 1, kind |-> kind,
            body |-> IF wa = "body" THEN inner ELSE other,      \* (`other`: what the wrapper's constructor
            orelse |-> IF wa = "orelse" THEN inner ELSE other]  \*  puts under its second attribute)
  IN Splice(root, b.p, b.a, b.lo, b.hi, <<w>>)
WrapTree(root, b) == WrapTreeK(root, b, "for", "body", << >>)
WrapFwdA(b, wa, c) ==
  LET nd == (b.hi - b.lo) - 1
      FN(i) == IF i >= b.hi THEN [ok |-> TRUE, v |-> << <<b.a, i - nd>> >>]
               ELSE IF i >= b.lo THEN [ok |-> TRUE, v |-> << <<b.a, b.lo>>, <<wa, i - b.lo>> >>]
               ELSE [ok |-> TRUE, v |-> << <<b.a, i>> >>]
      FB(lo, hi) ==
        IF lo >= b.hi THEN [ok |-> TRUE, pre |-> << >>, a |-> b.a, lo |-> lo - nd, hi |-> hi - nd]
        ELSE IF hi <= b.lo THEN [ok |-> TRUE, pre |-> << >>, a |-> b.a, lo |-> lo, hi |-> hi]
        ELSE IF lo >= b.lo /\ lo < b.hi /\ hi - 1 >= b.lo /\ hi - 1 < b.hi
             THEN [ok |-> TRUE, pre |-> << <<b.a, b.lo>> >>, a |-> wa, lo |-> lo - b.lo, hi |-> hi - b.lo]
        ELSE IF b.lo >= lo /\ b.lo < hi /\ b.hi - 1 >= lo /\ b.hi - 1 < hi
             THEN [ok |-> TRUE, pre |-> << >>, a |-> b.a, lo |-> lo, hi |-> hi - (b.hi - b.lo) + 1]
        ELSE [ok |-> FALSE]
  IN LocalFwd(b.p, b.a, FN, FB, c)
WrapFwd(b, c) == WrapFwdA(b, "body", c)


\* ---------- move (mirrors Block._move / _forward_move) ----------
GapPath(g) == SubSeq(g.p, 1, Len(g.p) - 1) \o << <<Last(g.p)[1], InsIdx(g)>> >>
BlockStartPath(b) == b.p \o << <<b.a, b.lo>> >>
\* _is_before(g, b)
RECURSIVE IsBeforeRec(_, _, _)
IsBeforeRec(gp, bp, j) ==
  IF j > Len(gp) \/ j > Len(bp) THEN TRUE
  ELSE IF gp[j][1] # bp[j][1] THEN FALSE
  ELSE IF gp[j][2] # bp[j][2] THEN gp[j][2] < bp[j][2]
  ELSE IsBeforeRec(gp, bp, j + 1)
IsBefore(g, b) == IsBeforeRec(GapPath(g), BlockStartPath(b), 1)
\* gap is inside (or adjacent-anchored in) the moved block or its subtrees
GapInBlock(g, b) == /\ StartsWith(g.p, b.p) /\ Len(g.p) > Len(b.p)
                    /\ g.p[Len(b.p) + 1][1] = b.a
                    /\ g.p[Len(b.p) + 1][2] >= b.lo /\ g.p[Len(b.p) + 1][2] < b.hi
DeleteTree(root, b) ==
  LET ch == Attr(NodeAt(root, b.p), b.a)
      ns == IF Len(ch) = b.hi - b.lo THEN Fresh(MaxLab(root), 1) ELSE << >>
  IN Splice(root, b.p, b.a, b.lo, b.hi, ns)
InsertNodes(root, g, ns) == Splice(root, Parent(g.p), Last(g.p)[1], InsIdx(g), InsIdx(g), ns)
MoveTree(root, b, g) ==
  LET ch == Attr(NodeAt(root, b.p), b.a)
      ns == SubSeq(ch, b.lo + 1, b.hi)
  IN IF IsBefore(g, b) THEN InsertNodes(DeleteTree(root, b), g, ns)
     ELSE DeleteTree(InsertNodes(root, g, ns), b)

RECURSIVE NewGapRec(_, _, _, _)
\* walks zip(block_start_path, gap_path); returns new gap path
NewGapRec(bs, gp, j, en) ==
  IF j > Len(bs) \/ j > Len(gp) THEN gp   \* no difference found inside zip (unreachable under precondition)
  ELSE IF bs[j] # gp[j]
       THEN LET e == IF bs[j][1] = gp[j][1] /\ bs[j][2] < gp[j][2]
                     THEN <<gp[j][1], gp[j][2] - en>> ELSE gp[j]
            IN SubSeq(gp, 1, j - 1) \o <<e>> \o SubSeq(gp, j + 1, Len(gp))
       ELSE NewGapRec(bs, gp, j + 1, en)

MoveFwdNode(b, g, p) ==
  LET bn == Len(b.p)
      en == b.hi - b.lo
      gp == GapPath(g)
      gn == Len(gp) - 1
      cn == Len(p)
      inBlkList == cn > bn /\ SubSeq(p, 1, bn) = b.p /\ p[bn + 1][1] = b.a
      idx == IF inBlkList THEN p[bn + 1][2] ELSE 0 - 1
      inside == inBlkList /\ idx >= b.lo /\ idx < b.hi
  IN IF inside
     THEN LET ngp == IF bn <= gn THEN NewGapRec(BlockStartPath(b), gp, 1, en) ELSE gp
              off == idx - b.lo
          IN NodeC(SubSeq(ngp, 1, Len(ngp) - 1)
                   \o << <<ngp[Len(ngp)][1], ngp[Len(ngp)][2] + off>> >>
                   \o SubSeq(p, bn + 2, cn))
     ELSE LET d1 == IF inBlkList /\ idx >= b.hi THEN 0 - en ELSE 0
              afterGap == /\ cn > gn /\ SubSeq(gp, 1, gn) = SubSeq(p, 1, gn)
                          /\ gp[gn + 1][1] = p[gn + 1][1] /\ gp[gn + 1][2] <= p[gn + 1][2]
              p1 == IF d1 # 0 THEN [p EXCEPT ![bn + 1] = <<@[1], @[2] + d1>>] ELSE p
              p2 == IF afterGap THEN [p1 EXCEPT ![gn + 1] = <<@[1], @[2] + en>>] ELSE p1
          IN NodeC(p2)

MoveFwd(b, g, c) ==
  CASE c.t = "n" -> MoveFwdNode(b, g, c.p)
    [] c.t = "g" -> GapC(MoveFwdNode(b, g, c.p).p, c.side)
    [] c.t = "b" ->
        IF c.p = b.p /\ c.a = b.a /\ PartIsct(c.lo, c.hi, b.lo, b.hi) THEN Inv
        ELSE LET s == MoveFwdNode(b, g, c.p \o << <<c.a, c.lo>> >>)
                 e == MoveFwdNode(b, g, c.p \o << <<c.a, c.hi - 1>> >>)
             IN IF Parent(s.p) # Parent(e.p) \/ Last(s.p)[1] # Last(e.p)[1] \/ Last(s.p)[2] > Last(e.p)[2]
                THEN Inv   \* the code raises AssertionError here
                ELSE BlockC(Parent(s.p), Last(s.p)[1], Last(s.p)[2], Last(e.p)[2] + 1)

\* ---------- denotation (label based) ----------
RECURSIVE PreT(_), PreF(_)
PreT(t) == <<t.lab>> \o PreF(t.body) \o PreF(t.orelse)
PreF(f) == IF f = << >> THEN << >> ELSE PreT(Head(f)) \o PreF(Tail(f))
Den(root, c) ==
  CASE c.t = "n" -> << NodeAt(root, c.p).lab >>
    [] c.t = "g" -> << NodeAt(root, c.p).lab >>
    [] c.t = "b" -> LET ch == Attr(NodeAt(root, c.p), c.a)
                    IN PreF(SubSeq(ch, c.lo + 1, c.hi))
ResolvesC(root, c) ==
  CASE c.t = "n" -> Resolves(root, c.p)
    [] c.t = "g" -> Resolves(root, c.p)
    [] c.t = "b" -> /\ Resolves(root, c.p)
                    /\ c.lo >= 0 /\ c.lo <= c.hi
                    /\ c.hi <= Len(Attr(NodeAt(root, c.p), c.a))
SeqToSet(s) == { s[j] : j \in 1..Len(s) }
\* subsequence check: all surviving labels of old denotation appear, in order
RECURSIVE IsSubseq(_, _)
IsSubseq(a, b) == IF a = << >> THEN TRUE
                  ELSE IF b = << >> THEN FALSE
                  ELSE IF Head(a) = Head(b) THEN IsSubseq(Tail(a), Tail(b))
                  ELSE IsSubseq(a, Tail(b))
TopNodes(root, c) == LET ch == Attr(NodeAt(root, c.p), c.a) IN SubSeq(ch, c.lo + 1, c.hi)
Sound(ed, old, new, c, r) ==
  \/ r = Inv
  \/ /\ ResolvesC(new, r)
     /\ r.t = c.t
     /\ IF c.t \in {"n", "g"}
        THEN /\ Den(new, r) = Den(old, c)
             /\ (c.t = "g" => r.side = c.side)
        ELSE LET ot == TopNodes(old, c)
                 surv == { ot[j].lab : j \in 1..Len(ot) } \cap Labels(new)
                 movedL == IF ed.k = "move"
                           THEN LET mt == TopNodes(old, ed.b) IN { mt[j].lab : j \in 1..Len(mt) }
                           ELSE {}
                 need == IF surv \subseteq movedL THEN surv ELSE surv \ movedL
                 mem == TopNodes(new, r)
                 \* statements of the old block at any depth that are still there (a rewrite may re-insert a
                 \* descendant of a block member, e.g. replace a loop by its body)
                 survIn == UNION { Labels(ot[j]) : j \in 1..Len(ot) } \cap Labels(new)
                 EdgeOK(m) == (Labels(m) \cap survIn # {}) \/ (m.lab \notin Labels(old))
             IN IF r.lo = r.hi THEN surv = {} ELSE
                /\ Len(mem) >= 1
                /\ (Strict => \A L \in need : \E j \in 1..Len(mem) : L \in Labels(mem[j]))
                /\ EdgeOK(mem[1]) /\ EdgeOK(mem[Len(mem)])
Complete(old, new, c, r) ==
  (r = Inv /\ c.t \in {"n", "g"}) => Den(old, c)[1] \notin Labels(new)

\* ---------- state machine: one edit from each initial tree ----------
VARIABLES tree, edit, ntree, done
vars == <<tree, edit, ntree, done>>

Init == tree \in Roots /\ edit = [k |-> "none"] /\ ntree = tree /\ done = FALSE

DoInsert == \E g \in GapCursors(tree), k \in 1..2 :
              /\ edit' = [k |-> "insert", g |-> g, n |-> k]
              /\ ntree' = InsertTree(tree, g, k)
DoReplace == \E b \in { c \in BlockCursors(tree) : ValidBlock(c) }, k \in 0..2 :
              /\ (k = 0 => Len(Attr(NodeAt(tree, b.p), b.a)) > b.hi - b.lo)
              /\ edit' = [k |-> "replace", b |-> b, n |-> k]
              /\ ntree' = ReplaceTree(tree, b, k)
DoWrap == \E b \in { c \in BlockCursors(tree) : ValidBlock(c) } :
              /\ edit' = [k |-> "wrap", b |-> b]
              /\ ntree' = WrapTree(tree, b)
FirstDiff(a, b2) == LET ds == {j \in 1..Len(a) : j <= Len(b2) /\ a[j] # b2[j]} IN
                    IF ds = {} THEN 0 ELSE CHOOSE j \in ds : \A k \in ds : j <= k
ForwardCousin(b, g) == LET bs == BlockStartPath(b)
                           gp == GapPath(g)
                           j == FirstDiff(bs, gp)
                       IN j # 0 /\ j <= Len(b.p) /\ bs[j][1] = gp[j][1] /\ bs[j][2] < gp[j][2]
DoMove == \E b \in { c \in BlockCursors(tree) : ValidBlock(c) }, g \in GapCursors(tree) :
              /\ ~GapInBlock(g, b)
              /\ (ExcludeCousin => ~ForwardCousin(b, g))
              /\ edit' = [k |-> "move", b |-> b, g |-> g]
              /\ ntree' = MoveTree(tree, b, g)
\* Block._delete: replace by nothing, but a statement list never becomes empty (a fresh pass is put in)
DoDelete == \E b \in { c \in BlockCursors(tree) : ValidBlock(c) } :
              /\ edit' = [k |-> "delete", b |-> b]
              /\ ntree' = DeleteTree(tree, b)
Next == /\ ~done /\ done' = TRUE /\ UNCHANGED tree
        /\ (DoInsert \/ DoReplace \/ DoDelete \/ DoWrap \/ DoMove)
Spec == Init /\ [][Next]_vars

Fwd(c) == CASE edit.k = "insert" -> InsertFwd(edit.g, edit.n, c)
            [] edit.k = "replace" -> ReplaceFwd(edit.b, edit.n, c)
            [] edit.k = "delete" -> ReplaceFwd(edit.b, 0, c)
            [] edit.k = "wrap" -> WrapFwd(edit.b, c)
            [] edit.k = "move" -> MoveFwd(edit.b, edit.g, c)

BadSet == { <<c, Fwd(c)>> : c \in { c \in Cursors(tree) : ~Sound(edit, tree, ntree, c, Fwd(c)) } }
FwdSound == done => (BadSet = {} \/ (PrintT(<<"BAD", edit, BadSet>>) /\ FALSE))
FwdComplete == done => \A c \in Cursors(tree) : Complete(tree, ntree, c, Fwd(c))

\* one JSON line per explored transition, for replay on the implementation
Emit == (done /\ EmitOn) =>
          PrintT(ToJson([tree |-> tree, edit |-> edit, ntree |-> ntree,
                         fw |-> {<<c, Fwd(c)>> : c \in Cursors(tree)}]))
=====================================================================
