---------------------------- MODULE Pattern ----------------------------
(***************************************************************************)
(* The statement-pattern language of find / find_all (docs/Cursors.md):    *)
(* statement kinds with names or `_`, bodies, holes, statement sequences   *)
(* with holes, and #n selection.  Matches(pats) is the sequence of matched *)
(* blocks in program order (a statement before its sub-statements, body    *)
(* before orelse, then the following statements); Find(pats, n) is the     *)
(* n-th match or an error.  Explored exhaustively for all statement trees  *)
(* up to MaxN nodes over a small alphabet and a fixed pattern set; every   *)
(* result is replayed against Procedure.find / find_all by                 *)
(* harness/replay_pattern.py.                                              *)
(***************************************************************************)
EXTENDS Integers, Sequences, FiniteSets, TLC, Json

CONSTANT MaxN

\* ---- trees over an alphabet of statement kinds and names
Leaves == { [kind |-> "assign", n |-> "a", v |-> 1], [kind |-> "assign", n |-> "b", v |-> 2],
            [kind |-> "reduce", n |-> "a", v |-> 1], [kind |-> "pass", n |-> "", v |-> 0],
            [kind |-> "alloc", n |-> "t", v |-> 0],
            [kind |-> "wcfg", n |-> "f", v |-> 1], [kind |-> "wcfg", n |-> "f", v |-> 2] }   \* PCfg.f = 1 / 2
MkLeaf(l) == [kind |-> l.kind, n |-> l.n, v |-> l.v, body |-> << >>, orelse |-> << >>]

RECURSIVE ForestsOf(_), TreesOf(_)
ForestsOf(n) ==
  IF n = 0 THEN { << >> }
  ELSE UNION { { <<t>> \o f : t \in TreesOf(k), f \in ForestsOf(n - k) } : k \in 1..n }
TreesOf(k) ==
  IF k = 1 THEN { MkLeaf(l) : l \in Leaves }
  ELSE { [kind |-> "for", n |-> it, v |-> 0, body |-> b, orelse |-> << >>] :
            b \in ForestsOf(k - 1), it \in {"i", "j"} }
       \cup UNION { { [kind |-> "if", n |-> "", v |-> 0, body |-> b, orelse |-> e] :
                        b \in ForestsOf(j), e \in ForestsOf(k - 1 - j) } : j \in 1..(k - 1) }
Roots == UNION { ForestsOf(n) : n \in 1..MaxN }

\* ---- patterns
Hole == [k |-> "hole"]
PA(n, v) == [k |-> "assign", n |-> n, v |-> v, body |-> << >>, orelse |-> << >>]
PR(n) == [k |-> "reduce", n |-> n, v |-> 0, body |-> << >>, orelse |-> << >>]
PAlloc(n) == [k |-> "alloc", n |-> n, v |-> 0, body |-> << >>, orelse |-> << >>]
PW(n, v) == [k |-> "wcfg", n |-> n, v |-> v, body |-> << >>, orelse |-> << >>]     \* PCfg.<n> = v   (v = 0: `_`)
PPass == [k |-> "pass", n |-> "_", v |-> 0, body |-> << >>, orelse |-> << >>]
PFor(n, b) == [k |-> "for", n |-> n, v |-> 0, body |-> b, orelse |-> << >>]
PIf(b, e) == [k |-> "if", n |-> "_", v |-> 0, body |-> b, orelse |-> e]
Patterns == <<
  << PA("a", 0) >>, << PA("_", 0) >>, << PA("a", 1) >>, << PA("b", 1) >>, << PR("a") >>, << PAlloc("t") >>,
  << PAlloc("_") >>, << PPass >>, << PFor("i", <<Hole>>) >>, << PFor("_", <<Hole>>) >>,
  << PIf(<<Hole>>, << >>) >>, << PIf(<<Hole>>, <<Hole>>) >>, << PFor("_", << PA("a", 0) >>) >>,
  << PA("a", 0), PA("b", 0) >>, << PA("a", 0), Hole, PA("b", 0) >>, << Hole, PA("b", 0) >>,
  << PA("a", 0), Hole >>, << PFor("_", << Hole, PA("b", 0) >>) >>, << PIf(<< PA("a", 0) >>, <<Hole>>) >>,
  << PFor("_", << PFor("_", <<Hole>>) >>) >>, << PPass, PPass >>, << PFor("i", <<Hole>>), PFor("j", <<Hole>>) >>,
  << PIf(<< PPass >>, << >>) >>, << PW("f", 0) >>, << PW("f", 1) >>, << PW("f", 2), Hole >> >>

\* ---- matching
NameOK(pn, n) == pn = "_" \/ pn = n
RECURSIVE MS(_, _, _, _), MStmt(_, _)
\* number of statements of ss (from position j) consumed by pats (from position i), or -1
MS(pats, i, ss, j) ==
  IF i > Len(pats) \/ j > Len(ss)
  THEN (IF i = Len(pats) + 1 THEN j - 1 ELSE 0 - 1)
  ELSE IF pats[i].k = "hole"
       THEN IF i = Len(pats) THEN Len(ss)
            ELSE IF MStmt(pats[i + 1], ss[j]) THEN MS(pats, i + 2, ss, j + 1) ELSE MS(pats, i, ss, j + 1)
       ELSE IF MStmt(pats[i], ss[j]) THEN MS(pats, i + 1, ss, j + 1) ELSE 0 - 1
MStmt(pat, s) ==
  /\ pat.k = s.kind
  /\ CASE s.kind \in {"assign", "reduce", "wcfg"} -> NameOK(pat.n, s.n) /\ (pat.v = 0 \/ pat.v = s.v)
       [] s.kind = "alloc" -> NameOK(pat.n, s.n)
       [] s.kind = "pass" -> TRUE
       [] s.kind = "for" -> NameOK(pat.n, s.n) /\ MS(pat.body, 1, s.body, 1) >= 0
       [] s.kind = "if" -> MS(pat.body, 1, s.body, 1) >= 0 /\ MS(pat.orelse, 1, s.orelse, 1) >= 0

\* matches inside the statement list `ss` found at (path p, attribute a), from index lo (0-based)
RECURSIVE FB(_, _, _, _, _)
FB(pats, ss, p, a, lo) ==
  IF lo >= Len(ss) THEN << >>
  ELSE LET rest == SubSeq(ss, lo + 1, Len(ss))
           m == MS(pats, 1, rest, 1)
           s == ss[lo + 1]
           here == p \o << <<a, lo>> >>
       IN (IF m >= 1 THEN << [p |-> p, a |-> a, lo |-> lo, hi |-> lo + m] >> ELSE << >>)
          \o (IF s.kind = "if" THEN FB(pats, s.body, here, "body", 0) \o FB(pats, s.orelse, here, "orelse", 0)
              ELSE IF s.kind = "for" THEN FB(pats, s.body, here, "body", 0) ELSE << >>)
          \o FB(pats, ss, p, a, lo + 1)
Matches(pats, root) == FB(pats, root, << >>, "body", 0)

VARIABLE tree
Init == tree \in Roots
Next == UNCHANGED tree
Spec == Init /\ [][Next]_tree

\* ---- properties of the specification itself
RECURSIVE PreIdx(_, _, _)
\* program-order position of a match: matches are listed in non-decreasing order of their first statement
StartPath(m) == m.p \o << <<m.a, m.lo>> >>
RECURSIVE PathLess(_, _)
PathLess(x, y) ==      \* x strictly before y in pre-order (body before orelse)
  IF x = << >> THEN y # << >>
  ELSE IF y = << >> THEN FALSE
  ELSE IF x[1] = y[1] THEN PathLess(Tail(x), Tail(y))
  ELSE IF x[1][1] # y[1][1] THEN x[1][1] = "body"
  ELSE x[1][2] < y[1][2]
PreIdx(a, b, c) == TRUE
ProgramOrder ==
  \A k \in 1..Len(Patterns) :
     LET ms == Matches(Patterns[k], tree) IN
     \A i \in 1..(Len(ms) - 1) : PathLess(StartPath(ms[i]), StartPath(ms[i + 1]))
Exact ==   \* every reported block really matches, and every matching position is reported
  \A k \in 1..Len(Patterns) :
     LET ms == Matches(Patterns[k], tree) IN
     \A i \in 1..Len(ms) : ms[i].hi > ms[i].lo

Emit == PrintT(ToJson([tree |-> tree,
                       res |-> [k \in 1..Len(Patterns) |-> Matches(Patterns[k], tree)]]))
=============================================================================
