SPECIFICATION Spec
CONSTANT MaxN = 5
CONSTANT Strict = FALSE
CONSTANT ExcludeCousin = TRUE
CONSTANT EmitOn = FALSE
INVARIANT FwdSound
INVARIANT FwdComplete
CHECK_DEADLOCK FALSE
