SPECIFICATION TraceSpec
INVARIANT Census
CHECK_DEADLOCK FALSE
