SPECIFICATION Spec
CONSTANT MaxN = 3
INVARIANT ProgramOrder
INVARIANT Exact
INVARIANT Emit
CHECK_DEADLOCK FALSE
