---------------------------- MODULE Annot ----------------------------
(***************************************************************************)
(* Annotation consistency (property C15).  A fixed call graph              *)
(*     caller(a, b)  ->  callee(x <- a, y <- b)  ->  leaf(d <- y[0:n], s <- t[0:n], r <- c)   *)
(*     callee:  t : alloc ; c : scalar alloc ; t[i] = x[i] + y[i]   leaf:  d[i] = s[i] * r  *)
(* and every assignment of precision, memory and window-ness reachable     *)
(* with set_precision / set_memory / set_window.  Consistent transcribes   *)
(* the rules the backend documents:                                        *)
(*   P1  operands of one arithmetic expression have one precision          *)
(*   P2  actual and formal argument precisions agree at every call         *)
(*   M1  an argument's memory is (a subclass of) the parameter's memory    *)
(*   M2  a buffer that is read or written directly lives in a memory that  *)
(*       allows direct access                                              *)
(*   W1  a window is never passed where a dense tensor is required         *)
(* (assignment between precisions is Exo's cast and is allowed).           *)
(* TLC enumerates the assignment space; every assignment is replayed on    *)
(* the real scheduling operators and compiler by harness/replay_annot.py:  *)
(* an inconsistent assignment must be rejected at compile time, and an     *)
(* accepted one must yield C and header text that gcc accepts.             *)
(***************************************************************************)
EXTENDS Integers, Sequences, FiniteSets, TLC, Json

Bufs == {"a", "b", "x", "y", "t", "d", "s", "c", "r"}   \* c: scalar allocated in callee, r: scalar parameter of leaf
Scalars == {"c", "r"}
Precs == {"f32", "f64", "i8"}
Mems == {"DRAM", "STACK", "NOACC"}        \* STACK is a subclass of DRAM; NOACC allows no direct access
Winable == {"a", "b", "x", "y"}           \* tensor arguments that set_window can turn into windows
DefPrec == [u \in Bufs |-> "f32"]
DefMem == [u \in Bufs |-> "DRAM"]
DefWin == [u \in Winable |-> FALSE]

VARIABLES prec, mem, win,
          alias   \* TRUE: callee reads y through a window statement  w = y[0:8]  (t[i] = x[i] + w[i]; leaf(w, ..)):
                  \* annotations of y must reach the accesses made through its alias
vars == <<prec, mem, win, alias>>

Diff(f, g) == Cardinality({u \in DOMAIN f : f[u] # g[u]})
Init ==
  /\ alias \in BOOLEAN
  /\ \/ prec \in [Bufs -> Precs] /\ mem = DefMem /\ win = DefWin
     \/ prec = DefPrec /\ mem \in {m \in [Bufs -> Mems] : \A u \in Scalars : m[u] = "DRAM"} /\ win = DefWin
     \/ prec = DefPrec /\ mem = DefMem /\ win \in [Winable -> BOOLEAN]
     \/ /\ prec \in {p \in [Bufs -> Precs] : Diff(p, DefPrec) <= 1}
        /\ mem \in {m \in [Bufs -> Mems] : Diff(m, DefMem) <= 1 /\ \A u \in Scalars : m[u] = "DRAM"}
        /\ win \in [Winable -> BOOLEAN]
Next == UNCHANGED vars
Spec == Init /\ [][Next]_vars

MemSub(m1, m2) == m1 = m2 \/ (m1 = "STACK" /\ m2 = "DRAM")
Calls == { <<"a", "x">>, <<"b", "y">>, <<"y", "d">>, <<"t", "s">>, <<"c", "r">> }     \* <<actual, formal>>
Direct == {"x", "y", "t", "d", "s"}                                     \* accessed with [] in a compiled body

P1 == prec["x"] = prec["y"] /\ prec["s"] = prec["r"]
P2 == \A c \in Calls : prec[c[1]] = prec[c[2]]
M1 == \A c \in Calls : MemSub(mem[c[1]], mem[c[2]])
M2 == \A u \in Direct : mem[u] # "NOACC"
W1 == (win["a"] => win["x"]) /\ (win["b"] => win["y"])
Consistent == P1 /\ P2 /\ M1 /\ M2 /\ W1
Broken == {r \in {"P1", "P2", "M1", "M2", "W1"} :
             CASE r = "P1" -> ~P1 [] r = "P2" -> ~P2 [] r = "M1" -> ~M1 [] r = "M2" -> ~M2 [] r = "W1" -> ~W1}

Emit == PrintT(ToJson([prec |-> prec, mem |-> mem, win |-> win, alias |-> alias, ok |-> Consistent, broken |-> Broken]))
=============================================================================
