---------------------------- MODULE PrintEnv ----------------------------
(***************************************************************************)
(* The printer's naming automaton (exo.core.LoopIR_pprint.PrintEnv):       *)
(* a stack of scopes, each with `env` (symbol -> printed string) and       *)
(* `names` (string -> next suffix); lookups see all enclosing scopes,      *)
(* updates go to the innermost one (ChainMap).                             *)
(*                                                                         *)
(* Symbols are pairs <<base name, id>>; base names include strings that    *)
(* look like generated names ("x_1"), so textual coincidences are in the   *)
(* explored space.  Injective (property C17): two distinct symbols that    *)
(* are visible at the same time are never printed with the same string.    *)
(* Every explored behaviour step is emitted and replayed on the real class *)
(* by harness/replay_printenv.py.                                          *)
(***************************************************************************)
EXTENDS Integers, Sequences, FiniteSets, TLC, Json

CONSTANTS Bases, MaxId, MaxDepth, MaxOps, EmitOn
Syms == Bases \X (1..MaxId)

VARIABLES stack,   \* sequence of [env : function sym -> string, names : function string -> Nat]
          hist     \* operations so far, with results (hidden from the fingerprint)
vars == <<stack, hist>>

Suffix(n) == CASE n = 1 -> "_1" [] n = 2 -> "_2" [] n = 3 -> "_3" [] n = 4 -> "_4" [] OTHER -> "_5"

\* ChainMap lookup through all scopes, innermost first
RECURSIVE LookupEnv(_, _, _), LookupNames(_, _, _)
LookupEnv(st, k, s) == IF k = 0 THEN "" ELSE
                       IF s \in DOMAIN st[k].env THEN st[k].env[s] ELSE LookupEnv(st, k - 1, s)
LookupNames(st, k, nm) == IF k = 0 THEN 0 ELSE
                          IF nm \in DOMAIN st[k].names THEN st[k].names[nm] ELSE LookupNames(st, k - 1, nm)
InNames(st, nm) == \E k \in 1..Len(st) : nm \in DOMAIN st[k].names

\* get_name's search: first candidate not in names
RECURSIVE Pick(_, _, _)
Pick(st, base, num) ==
  LET cand == base \o Suffix(num) IN
  IF InNames(st, cand) THEN Pick(st, base, num + 1) ELSE <<cand, num + 1>>
Resolve(st, s) ==
  LET base == s[1]
      num0 == IF InNames(st, base) THEN LookupNames(st, Len(st), base) ELSE 1
  IN IF InNames(st, base) THEN Pick(st, base, num0) ELSE <<base, num0>>

Init == stack = << [env |-> << >>, names |-> << >>] >> /\ hist = << >>

Push == /\ Len(stack) < MaxDepth
        /\ stack' = Append(stack, [env |-> << >>, names |-> << >>])
        /\ hist' = Append(hist, [op |-> "push"])
Pop == /\ Len(stack) > 1
       /\ stack' = SubSeq(stack, 1, Len(stack) - 1)
       /\ hist' = Append(hist, [op |-> "pop"])
GetName(s) ==
  LET top == Len(stack)
      seen == LookupEnv(stack, top, s)
  IN IF seen # ""
     THEN /\ stack' = stack
          /\ hist' = Append(hist, [op |-> "get", base |-> s[1], id |-> s[2], r |-> seen])
     ELSE LET r == Resolve(stack, s)
              cand == r[1]
              num == r[2]
              \* the chosen string is reserved as well, so that a symbol literally named like a
              \* generated candidate cannot be printed with it
              nm1 == (s[1] :> num) @@ stack[top].names
              nm2 == IF cand \in DOMAIN nm1 THEN nm1 ELSE (cand :> 1) @@ nm1
          IN /\ stack' = [stack EXCEPT ![top] = [env |-> (s :> cand) @@ @.env, names |-> nm2]]
             /\ hist' = Append(hist, [op |-> "get", base |-> s[1], id |-> s[2], r |-> cand])

Next == /\ Len(hist) < MaxOps
        /\ (Push \/ Pop \/ \E s \in Syms : GetName(s))
Spec == Init /\ [][Next]_vars

Visible == UNION { DOMAIN stack[k].env : k \in 1..Len(stack) }
Injective == \A s, t \in Visible :
               s # t => LookupEnv(stack, Len(stack), s) # LookupEnv(stack, Len(stack), t)
Stable == [][\A s \in Visible : s \in UNION { DOMAIN stack'[k].env : k \in 1..Len(stack') }
                => LookupEnv(stack', Len(stack'), s) = LookupEnv(stack, Len(stack), s)]_vars

View == stack
Emit == EmitOn => PrintT(ToJson([h |-> hist]))
=============================================================================
