------------------------- MODULE CursorEditTrace -------------------------
(***************************************************************************)
(* Trace validation for CursorEdit (code -> spec).  harness/edittrace.py   *)
(* records every elementary edit that real scheduling primitives perform   *)
(* (on the corpora and in the repository's own tests): the statement tree  *)
(* before, the edit, the tree the code produced and the images of sampled  *)
(* cursors under the forwarding function the code returned.  For each      *)
(* record this module takes CursorEdit's own step and reports whether      *)
(*   tree  - the spec's new tree agrees with the code's (same shape; every *)
(*           node object the code carried over sits where the spec puts    *)
(*           the node with that label),                                    *)
(*   fwd   - the spec forwards every sampled cursor exactly as the code,   *)
(*   sound - CursorEdit!Sound holds for every sampled cursor on this       *)
(*           real-sized tree (the exhaustive model covers trees <= 5).     *)
(***************************************************************************)
EXTENDS CursorEdit, IOUtils

Recs == JsonDeserialize(IOEnv.EXO_EDITS)
VARIABLE rid
tvars == <<tree, edit, ntree, done, rid>>

R == Recs[rid]

TInit == /\ rid \in 1..Len(Recs)
         /\ tree = Recs[rid].tree /\ ntree = Recs[rid].tree
         /\ edit = [k |-> "none"] /\ done = FALSE

StepTree(t, e) ==
  CASE e.k = "insert"  -> InsertNodes(t, e.g, e.ns)
    [] e.k = "replace" -> Splice(t, e.b.p, e.b.a, e.b.lo, e.b.hi, e.ns)
    [] e.k = "delete"  -> DeleteTree(t, e.b)
    [] e.k = "wrap"    -> WrapTreeK(t, e.b, e.wkind, e.wattr, e.wother)
    [] e.k = "move"    -> MoveTree(t, e.b, e.g)

TNext == /\ ~done /\ done' = TRUE /\ UNCHANGED <<tree, rid>>
         /\ edit' = R.edit
         /\ ntree' = StepTree(tree, R.edit)
TSpec == TInit /\ [][TNext]_tvars

TFwd(c) == IF edit.k = "wrap" THEN WrapFwdA(edit.b, edit.wattr, c) ELSE Fwd(c)

RECURSIVE Agree(_, _)
AgreeF(f, g) == Len(f) = Len(g) /\ \A j \in 1..Len(f) : Agree(f[j], g[j])
Agree(s, r) == /\ s.kind = r.kind
               /\ (r.lab = 0 \/ r.lab = s.lab)
               /\ AgreeF(s.body, r.body) /\ AgreeF(s.orelse, r.orelse)

FwdDiff == {j \in 1..Len(R.fw) : TFwd(R.fw[j].c) # R.fw[j].r}
Unsound == {j \in 1..Len(R.fw) : ~Sound(edit, tree, ntree, R.fw[j].c, TFwd(R.fw[j].c))}
ImplUnsound == {j \in 1..Len(R.fw) : R.fw[j].r.t # "!" /\ ~Sound(edit, tree, ntree, R.fw[j].c, R.fw[j].r)}

Census == done => PrintT(ToJson([r |-> rid,
                                 tree |-> Agree(ntree, R.ntree),
                                 fwd |-> Cardinality(FwdDiff),
                                 first |-> IF FwdDiff = {} THEN 0 ELSE CHOOSE j \in FwdDiff : TRUE,
                                 sound |-> Cardinality(Unsound),
                                 isound |-> Cardinality(ImplUnsound),
                                 ifirst |-> IF ImplUnsound = {} THEN 0 ELSE CHOOSE j \in ImplUnsound : TRUE]))
=============================================================================
