---------------------------- MODULE ProcEqvTrace ----------------------------
(***************************************************************************)
(* Trace validation for C11: histories of procedure creation / derivation  *)
(* / unsafe_assert_eq recorded from real scheduling sessions (the recorder *)
(* wraps Procedure.__init__ and unsafe_assert_eq), together with the       *)
(* answers the real tracker gave at the end of the session.  The trace is  *)
(* accepted iff every step is a step of ProcEqv and the logged answers     *)
(* equal the abstract per-field closure.                                   *)
(***************************************************************************)
EXTENDS Integers, Sequences, FiniteSets, TLC, Json, IOUtils

Traces == JsonDeserialize(IOEnv.EXO_EQV_TRACES)
NP == Traces.np
Keys == {Traces.keys[j] : j \in 1..Len(Traces.keys)}
MaxSteps == 1000000
EmitOn == FALSE

VARIABLES declared, steps, ufUnv, ufStrict, ufKey, hist, tid, l
P == INSTANCE ProcEqv

T == Traces.traces[tid]
SetOf(s) == {s[j] : j \in 1..Len(s)}

TraceInit == P!Init /\ tid \in 1..Len(Traces.traces) /\ l = 1
TraceNext ==
  /\ l <= Len(T.h)
  /\ LET e == T.h[l] IN
       CASE e.op = "decl" -> P!DeclNew(e.p)
         [] e.op = "derive" -> P!Derive(e.p, e.q, SetOf(e.K))
         [] e.op = "assert" -> P!AssertEqK(e.p, e.q, SetOf(e.K))
  /\ l' = l + 1 /\ tid' = tid
TraceSpec == TraceInit /\ [][TraceNext]_<<declared, steps, ufUnv, ufStrict, ufKey, hist, tid, l>>

AtEnd == l = Len(T.h) + 1
\* the logged answers of the real tracker against the abstract relation (closures computed once)
Fields == Keys \cup {"other"}
EdgesAvoiding(f) == { <<s[1], s[2]>> : s \in {t \in steps : f \notin t[3]} }
Closure(f) == [p \in declared |-> P!Reach(EdgesAvoiding(f), {p}, Cardinality(declared))]
Mismatches ==
  LET cl == [f \in Fields |-> Closure(f)]
  IN {<<p, q>> \in declared \X declared :
        LET a == T.ans[p][q]
            eq == \A f \in Fields \ Keys : q \in cl[f][p]
            K == {k \in Keys : q \notin cl[k][p]}
        IN a.eq # eq \/ (eq /\ SetOf(a.K) # K)}
\* the spec's own refinement invariants are evaluated on every consumed prefix as well
Census == AtEnd => PrintT(ToJson([t |-> tid, consumed |-> l - 1,
                                   ok |-> Mismatches = {} /\ Cardinality(declared) = T.n,
                                   bad |-> Mismatches]))
\* the implementation-shaped state of the spec must agree with the abstract relation at the end too
ImplAgrees == AtEnd => \A p, q \in declared :
                 P!ImplStrictest(p, q)[1] = T.ans[p][q].eq
                 /\ (T.ans[p][q].eq => P!ImplStrictest(p, q)[2] = SetOf(T.ans[p][q].K))
=============================================================================
