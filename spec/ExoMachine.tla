---------------------------- MODULE ExoMachine ----------------------------
(***************************************************************************)
(* Small-step operational semantics of Exo's LoopIR, with programs as      *)
(* data.  The harness (harness/export.py) projects real LoopIR.proc        *)
(* objects to JSON "units"; TLC runs this machine on every (unit, input)   *)
(* pair of a batch.                                                        *)
(*                                                                         *)
(* One behaviour = one (unit, input): phase A runs the reference           *)
(* procedure, phase B (if the unit has one) runs the derived procedure on  *)
(* the related input; the terminal state carries the verdict, emitted by   *)
(* the always-true invariant Census as one JSON line.  Modes of use:       *)
(*   equivalence    (ExoEquiv of DESIGN 3.2)   unit.B # 0                  *)
(*   access trace   (ExoAccessTrace)           unit.trace                  *)
(*   safety         (Safe/HeapOK)              unit.B = 0                  *)
(*   race monitor   (RaceFree)                 unit.race                   *)
(*   C trace        (ExoCTrace)                input.out present           *)
(*   iteration order (ExoPar)                  unit.permute: phase B runs  *)
(*                  the same procedure with the iterations of every        *)
(*                  parallel loop in EVERY order (TLC branches over the    *)
(*                  permutations); all final states must equal phase A's   *)
(* State invariants that must hold at every step are folded into `trap`,   *)
(* which stops the behaviour.                                              *)
(***************************************************************************)
EXTENDS Integers, Sequences, FiniteSets, TLC, Json, IOUtils, ExoProgram

Batch == JsonDeserialize(IOEnv.EXO_BATCH)
Units == Batch.units
StepBound == Batch.stepbound

P == 32749              \* prime of value mode "F"; P*P < 2^30
Poison == -1000003      \* uninitialised cell; absorbing

VARIABLES uid,     \* unit of the batch
          iid,     \* input of the unit
          phase,   \* "init" | "A" | "B" | "done"
          frames,  \* call stack of [proc, stk, env, bufs]
          heap,    \* alloc id -> [cells, live]
          nal,     \* next fresh alloc id
          trap,    \* [k |-> kind, p, b, i]  (k = "none": running)
          outA,    \* snapshot of phase A's final state
          trapA,   \* phase A's trap
          par,     \* stack of parallel-loop monitors
          tr,      \* access trace recorded in phase A
          tpos,    \* position in tr consumed by phase B
          why      \* verdict detail for non-run endings ("", "A-invalid", ...)
vars == <<uid, iid, phase, frames, heap, nal, trap, outA, trapA, par, tr, tpos, why>>

Unit == Units[uid]
Mode == Unit.mode
Input == Unit.inputs[iid]
Procs == Unit.procs
NCfg == Len(Unit.cfgbool)
SideA == Input.a
SideB == IF "b" \in DOMAIN Input THEN Input.b ELSE Input.a
NoTrap == [k |-> "none", p |-> 0, b |-> 0, i |-> 0]

\* ------------------------------------------------------------------ values
RECURSIVE ModPow(_, _)
ModPow(b, e) == IF e = 0 THEN 1
                ELSE LET h == ModPow(b, e \div 2)
                         h2 == (h * h) % P
                     IN IF e % 2 = 1 THEN (h2 * b) % P ELSE h2
ModInv(b) == ModPow(b % P, P - 2)

Num(op, a, b) ==
  IF a = Poison \/ b = Poison THEN Poison
  ELSE IF Mode = "F"
       THEN CASE op = "+" -> (a + b) % P
              [] op = "-" -> (a - b) % P
              [] op = "*" -> (a * b) % P
              [] op = "/" -> (a * ModInv(b)) % P
       ELSE CASE op = "+" -> a + b
              [] op = "-" -> a - b
              [] op = "*" -> a * b
              [] op = "/" -> a \div b      \* exactness is checked by Chk

Max2(a, b) == IF a > b THEN a ELSE b
Min2(a, b) == IF a < b THEN a ELSE b
\* Externs.  Mode F: uninterpreted (a fixed polynomial hash of the arguments
\* salted by the extern's id); mode Z: the true function on small integers.
Ext(f, fid, xs) ==
  IF \E j \in 1..Len(xs) : xs[j] = Poison THEN Poison
  ELSE IF Mode = "F"
       THEN LET RECURSIVE H(_)
                H(j) == IF j = 0 THEN (7 + 101 * fid) % P
                        ELSE (H(j - 1) * 31 + ((xs[j] * xs[j]) % P) + 3 * xs[j] + j) % P
            IN H(Len(xs))
       ELSE CASE f = "relu" -> IF xs[1] > 0 THEN xs[1] ELSE 0
              [] f = "select" -> IF xs[1] < xs[2] THEN xs[3] ELSE xs[4]
              [] f = "fmaxf" -> Max2(xs[1], xs[2])
              [] f = "fminf" -> Min2(xs[1], xs[2])
              [] f = "clamp" -> Min2(Max2(xs[1], xs[2]), xs[3])
              [] f = "abs" -> IF xs[1] < 0 THEN 0 - xs[1] ELSE xs[1]
              [] OTHER -> Poison

\* ------------------------------------------------------------ descriptors
RECURSIVE DotOff(_, _, _)
DotOff(ix, st, j) == IF j = 0 THEN 0 ELSE DotOff(ix, st, j - 1) + ix[j] * st[j]
RECURSIVE ProdTo(_, _)
ProdTo(s, j) == IF j = 0 THEN 1 ELSE ProdTo(s, j - 1) * s[j]
Prod(s) == ProdTo(s, Len(s))
RowMajor(sh) == [d \in 1..Len(sh) |-> Prod(SubSeq(sh, d + 1, Len(sh)))]
CfgDesc(c) == [al |-> 0 - c, off |-> 0, st |-> << >>, sh |-> << >>, dw |-> FALSE]

\* ------------------------------------------------- expression evaluation
RECURSIVE Eval(_, _, _)
Eval(e, F, hp) ==
  CASE e.k = "c"  -> e.v
    [] e.k = "v"  -> F.env[e.n]
    [] e.k = "rd" -> LET d == F.bufs[e.n]
                         ix == [j \in 1..Len(e.idx) |-> Eval(e.idx[j], F, hp)]
                     IN hp[d.al].cells[d.off + DotOff(ix, d.st, Len(ix)) + 1]
    [] e.k = "rcfg" -> hp[0 - e.c].cells[1]
    [] e.k = "stride" -> F.bufs[e.n].st[e.dim + 1]
    [] e.k = "illtyped" -> Poison      \* (Chk traps before a statement evaluates one; assertions containing one are not exported)
    [] e.k = "neg" -> LET a == Eval(e.a, F, hp) IN
                      IF e.num THEN Num("-", 0, a) ELSE 0 - a
    [] e.k = "ext" -> Ext(e.f, e.fid, [j \in 1..Len(e.args) |-> Eval(e.args[j], F, hp)])
    [] e.k = "bin" -> LET a == Eval(e.l, F, hp)
                          b == Eval(e.r, F, hp)
                      IN IF e.num THEN Num(e.op, a, b)
                         ELSE CASE e.op = "+" -> a + b
                                [] e.op = "-" -> a - b
                                [] e.op = "*" -> a * b
                                [] e.op = "/" -> a \div b
                                [] e.op = "%" -> a % b
                                [] e.op = "<" -> a < b
                                [] e.op = ">" -> a > b
                                [] e.op = "<=" -> a <= b
                                [] e.op = ">=" -> a >= b
                                [] e.op = "==" -> a = b
                                [] e.op = "and" -> a /\ b
                                [] e.op = "or" -> a \/ b

\* Chk(e) = "ok" or the name of the first reason why e must not be evaluated.
RECURSIVE Chk(_, _, _)
ChkAll(es, F, hp) ==
  LET bad == {j \in 1..Len(es) : Chk(es[j], F, hp) # "ok"} IN
  IF bad = {} THEN "ok" ELSE Chk(es[CHOOSE j \in bad : \A k \in bad : j <= k], F, hp)
Chk(e, F, hp) ==
  CASE e.k = "v" -> IF e.n \in DOMAIN F.env THEN "ok" ELSE "unbound"
    [] e.k = "rd" ->
         IF e.n \notin DOMAIN F.bufs THEN "unbound"
         ELSE LET d == F.bufs[e.n] IN
              IF ChkAll(e.idx, F, hp) # "ok" THEN ChkAll(e.idx, F, hp)
              ELSE IF Len(e.idx) # Len(d.sh) THEN "rank"
              ELSE IF d.al \notin DOMAIN hp THEN "dangling"
              ELSE IF ~hp[d.al].live THEN "uaf"
              ELSE IF \E j \in 1..Len(e.idx) :
                        LET v == Eval(e.idx[j], F, hp) IN v < 0 \/ v >= d.sh[j]
                   THEN \* outside the declared extent; "oobwin": of a derived window, yet inside its source allocation
                        LET ix == [j \in 1..Len(e.idx) |-> Eval(e.idx[j], F, hp)]
                            o == d.off + DotOff(ix, d.st, Len(ix))
                        IN IF d.dw /\ o >= 0 /\ o < Len(hp[d.al].cells) THEN "oobwin" ELSE "oob"
                   ELSE "ok"
    [] e.k = "stride" -> IF e.n \in DOMAIN F.bufs
                         THEN (IF e.dim < Len(F.bufs[e.n].st) THEN "ok" ELSE "rank")
                         ELSE "unbound"
    [] e.k = "neg" -> Chk(e.a, F, hp)
    [] e.k = "ext" -> ChkAll(e.args, F, hp)
    [] e.k = "bin" ->
         IF Chk(e.l, F, hp) # "ok" THEN Chk(e.l, F, hp)
         ELSE IF Chk(e.r, F, hp) # "ok" THEN Chk(e.r, F, hp)
         ELSE IF e.op \in {"/", "%"}
              THEN LET a == Eval(e.l, F, hp)
                       b == Eval(e.r, F, hp)
                   IN IF ~e.num THEN (IF b <= 0 THEN "divzero" ELSE "ok")
                      ELSE IF a = Poison \/ b = Poison THEN "ok"
                      ELSE IF Mode = "F" THEN (IF b % P = 0 THEN "divzero" ELSE "ok")
                      ELSE IF b = 0 THEN "divzero"
                      ELSE IF a % b # 0 THEN "inexact" ELSE "ok"
              ELSE "ok"
    [] e.k = "illtyped" -> "illtyped"   \* literal whose value contradicts its type (export.py)
    [] OTHER -> "ok"

\* locations <<alloc, flat offset>> read by evaluating e
RECURSIVE Reads(_, _, _)
Reads(e, F, hp) ==
  CASE e.k = "rd" -> LET d == F.bufs[e.n]
                         ix == [j \in 1..Len(e.idx) |-> Eval(e.idx[j], F, hp)]
                     IN {<<d.al, d.off + DotOff(ix, d.st, Len(ix))>>}
                        \cup UNION {Reads(e.idx[j], F, hp) : j \in 1..Len(e.idx)}
    [] e.k = "rcfg" -> {<<0 - e.c, 0>>}
    [] e.k = "neg" -> Reads(e.a, F, hp)
    [] e.k = "ext" -> UNION {Reads(e.args[j], F, hp) : j \in 1..Len(e.args)}
    [] e.k = "bin" -> Reads(e.l, F, hp) \cup Reads(e.r, F, hp)
    [] e.k = "win" -> UNION {IF e.acc[j].k = "pt" THEN Reads(e.acc[j].pt, F, hp)
                             ELSE Reads(e.acc[j].lo, F, hp) \cup Reads(e.acc[j].hi, F, hp)
                             : j \in 1..Len(e.acc)}
    [] OTHER -> {}
ReadsAll(es, F, hp) == UNION {Reads(es[j], F, hp) : j \in 1..Len(es)}

\* window expressions
ChkWin(e, F, hp) ==
  IF e.n \notin DOMAIN F.bufs THEN "unbound"
  ELSE LET d == F.bufs[e.n] IN
       IF Len(e.acc) # Len(d.sh) THEN "rank"
       ELSE LET sub == [j \in 1..Len(e.acc) |->
                          IF e.acc[j].k = "pt" THEN Chk(e.acc[j].pt, F, hp)
                          ELSE IF Chk(e.acc[j].lo, F, hp) # "ok" THEN Chk(e.acc[j].lo, F, hp)
                          ELSE Chk(e.acc[j].hi, F, hp)]
                bad == {j \in 1..Len(sub) : sub[j] # "ok"}
            IN IF bad # {} THEN sub[CHOOSE j \in bad : TRUE]
               ELSE IF d.al \notin DOMAIN hp THEN "dangling"
               ELSE IF ~hp[d.al].live THEN "uaf"
               ELSE IF \E j \in 1..Len(e.acc) :
                         IF e.acc[j].k = "pt"
                         THEN LET v == Eval(e.acc[j].pt, F, hp) IN v < 0 \/ v >= d.sh[j]
                         ELSE LET lo == Eval(e.acc[j].lo, F, hp)
                                  hi == Eval(e.acc[j].hi, F, hp)
                              IN lo < 0 \/ hi > d.sh[j]   \* (an empty or negative extent accesses nothing)
                    \* a window reaching beyond its source accesses nothing by itself: the properties speak of
                    \* accesses, so this ends the behaviour without a verdict ("winext" is inconclusive)
                    THEN "winext" ELSE "ok"
WinDesc(e, F, hp) ==
  LET d == F.bufs[e.n]
      los == [j \in 1..Len(e.acc) |->
                IF e.acc[j].k = "pt" THEN Eval(e.acc[j].pt, F, hp) ELSE Eval(e.acc[j].lo, F, hp)]
      ivs == SelectSeq([j \in 1..Len(e.acc) |-> j], LAMBDA j : e.acc[j].k = "iv")
  IN [al |-> d.al,
      off |-> d.off + DotOff(los, d.st, Len(los)),
      st |-> [q \in 1..Len(ivs) |-> d.st[ivs[q]]],
      sh |-> [q \in 1..Len(ivs) |-> Eval(e.acc[ivs[q]].hi, F, hp) - los[ivs[q]]],
      dw |-> TRUE]

\* ------------------------------------------------------------------ frames
NF == Len(frames)
TopF == frames[NF]
Stk == TopF.stk
TopC == Stk[Len(Stk)]
Blocks == Procs[TopF.proc].blocks
Cur == Blocks[TopC.b][TopC.i]
Running == phase \in {"A", "B"} /\ trap.k = "none" /\ NF > 0
AtStmt == Running /\ Len(Stk) > 0 /\ TopC.i <= Len(Blocks[TopC.b])
Ctl(b) == [b |-> b, i |-> 1, hi |-> 0, als |-> << >>, ord |-> << >>, pm |-> FALSE]
\* orders in which the iterations lo..hi-1 of a parallel loop are run when the unit asks for it (phase B only):
\* all permutations for up to 3 iterations, else identity, reversal and one rotation
Permuting == phase = "B" /\ "permute" \in DOMAIN Unit /\ Unit.permute
Orders(lo, hi) ==
  LET k == hi - lo
      idn == [j \in 1..k |-> lo + j - 1]
  IN IF k <= 3 THEN {f \in [1..k -> lo..(hi - 1)] : \A p, q \in 1..k : p # q => f[p] # f[q]}
     ELSE {idn, [j \in 1..k |-> hi - j], [j \in 1..k |-> IF j = k THEN lo ELSE lo + j]}
AdvStk(s) == [s EXCEPT ![Len(s)].i = @ + 1]
SetTop(f) == [frames EXCEPT ![NF] = f]
Here(k) == [k |-> k, p |-> TopF.proc, b |-> TopC.b, i |-> TopC.i]

IsBuf(a) == a.kind = "buf"
EntryEnv(pr, side) ==
  LET idxs == {j \in 1..Len(pr.args) : ~IsBuf(pr.args[j])}
  IN [n \in {pr.args[j].n : j \in idxs} |-> side.ctl[CHOOSE j \in idxs : pr.args[j].n = n]]
EntryBufs(pr, side, en) ==
  LET idxs == {j \in 1..Len(pr.args) : IsBuf(pr.args[j])}
      F0 == [env |-> en, bufs |-> << >>]
  IN [n \in {pr.args[j].n : j \in idxs} |->
        LET j == CHOOSE j \in idxs : pr.args[j].n = n
            sh == [d \in 1..Len(pr.args[j].shape) |-> Eval(pr.args[j].shape[d], F0, << >>)]
        IN IF pr.args[j].win
           THEN [al |-> j, off |-> side.bufs[j].off,
                 \* (a dense input handed to a window argument - set_window edges - is row-major)
                 st |-> IF side.bufs[j].strides = << >> THEN RowMajor(sh) ELSE side.bufs[j].strides,
                 sh |-> sh, dw |-> FALSE]
           ELSE [al |-> j, off |-> 0, st |-> RowMajor(sh), sh |-> sh, dw |-> FALSE]]
EntryHeap(pr, side) ==
  LET idxs == {j \in 1..Len(pr.args) : IsBuf(pr.args[j])}
  IN [a \in idxs \cup {0 - c : c \in 1..NCfg} |->
        IF a > 0 THEN [cells |-> side.bufs[a].cells, live |-> TRUE]
        ELSE [cells |-> << side.cfg[0 - a] >>, live |-> TRUE]]
EntryFrame(pid, side) ==
  LET pr == Procs[pid]
      en == EntryEnv(pr, side)
  IN [proc |-> pid, stk |-> << Ctl(pr.entry) >>, env |-> en, bufs |-> EntryBufs(pr, side, en)]
PredsOK(pr, F, hp) == \A j \in 1..Len(pr.preds) : Eval(pr.preds[j], F, hp)
SizesOK(pr, F) == \A j \in 1..Len(pr.args) : pr.args[j].kind = "size" => F.env[pr.args[j].n] >= 1
\* admissibility of an input for an entry procedure, judged by the machine's own Eval
ValidInput(pid, side) ==
  LET pr == Procs[pid]
      F == EntryFrame(pid, side)
  IN SizesOK(pr, F) /\ PredsOK(pr, F, EntryHeap(pr, side))

Init == /\ uid \in 1..Len(Units)
        /\ iid \in 1..Len(Units[uid].inputs)
        /\ phase = "init"
        /\ frames = << >> /\ heap = << >> /\ nal = 100 /\ trap = NoTrap
        /\ outA = << >> /\ trapA = NoTrap /\ par = << >> /\ tr = << >> /\ tpos = 1
        /\ why = ""

Start ==
  /\ phase = "init"
  /\ IF ValidInput(Unit.A, SideA)
     THEN /\ phase' = "A"
          /\ frames' = << EntryFrame(Unit.A, SideA) >>
          /\ heap' = EntryHeap(Procs[Unit.A], SideA)
          /\ why' = why
     ELSE /\ phase' = "done" /\ why' = "A-invalid"
          /\ UNCHANGED <<frames, heap>>
  /\ UNCHANGED <<uid, iid, nal, trap, outA, trapA, par, tr, tpos>>

\* -------------------------------------------------------------- monitors
UNCH_ID == UNCHANGED <<uid, iid, phase, outA, trapA, why>>
Trap(k) == trap' = Here(k) /\ UNCHANGED <<frames, heap, nal, par, tr, tpos>>

EmptyAcc == [w |-> {}, r |-> {}, d |-> {}]
\* log accesses of the current statement into the innermost parallel iteration
ParLog(R, W, D) ==
  IF par = << >> THEN par
  ELSE [par EXCEPT ![Len(par)].cur = [w |-> @.w \cup W, r |-> @.r \cup R, d |-> @.d \cup D]]
Races(acc, cur) ==
  \/ cur.w \cap (acc.r \cup acc.w \cup acc.d) # {}
  \/ cur.d \cap (acc.r \cup acc.w \cup acc.d) # {}
  \/ cur.r \cap (acc.w \cup acc.d) # {}
Merge(a, b) == [w |-> a.w \cup b.w, r |-> a.r \cup b.r, d |-> a.d \cup b.d]

\* access trace: record in phase A, consume in phase B
Tracing == Unit.trace
TraceOK(ev) == ~Tracing \/ phase = "A" \/ (tpos <= Len(tr) /\ tr[tpos] = ev)
TraceStep(ev) ==
  IF ~Tracing THEN UNCHANGED <<tr, tpos>>
  ELSE IF phase = "A" THEN tr' = Append(tr, ev) /\ tpos' = tpos
  ELSE tr' = tr /\ tpos' = tpos + 1

\* ------------------------------------------------------------ statements
AssignS ==
  /\ AtStmt /\ Cur.k \in {"assign", "reduce"}
  /\ LET s == Cur
         F == TopF
         lhs == [k |-> "rd", n |-> s.n, idx |-> s.idx]
         c1 == Chk(lhs, F, heap)
         c2 == Chk(s.rhs, F, heap)
     IN IF c1 # "ok" THEN Trap(c1)
        ELSE IF c2 # "ok" THEN Trap(c2)
        ELSE LET d == F.bufs[s.n]
                 ix == [j \in 1..Len(s.idx) |-> Eval(s.idx[j], F, heap)]
                 o == d.off + DotOff(ix, d.st, Len(ix))
                 r == Eval(s.rhs, F, heap)
                 nv == IF s.k = "assign" THEN r ELSE Num("+", heap[d.al].cells[o + 1], r)
                 ev == <<(IF s.k = "assign" THEN "w" ELSE "d"), d.al, o>>
             IN IF ~TraceOK(ev) THEN Trap("trace")
                ELSE /\ heap' = [heap EXCEPT ![d.al].cells[o + 1] = nv]
                     /\ frames' = SetTop([F EXCEPT !.stk = AdvStk(@)])
                     /\ par' = ParLog(Reads(s.rhs, F, heap) \cup ReadsAll(s.idx, F, heap),
                                      IF s.k = "assign" THEN {<<d.al, o>>} ELSE {},
                                      IF s.k = "reduce" THEN {<<d.al, o>>} ELSE {})
                     /\ TraceStep(ev)
                     /\ UNCHANGED <<nal, trap>>
  /\ UNCH_ID

WCfgS ==
  /\ AtStmt /\ Cur.k = "wcfg"
  /\ LET s == Cur
         c == Chk(s.rhs, TopF, heap)
     IN IF c # "ok" THEN Trap(c)
        ELSE /\ heap' = [heap EXCEPT ![0 - s.c].cells[1] = Eval(s.rhs, TopF, heap)]
             /\ frames' = SetTop([TopF EXCEPT !.stk = AdvStk(@)])
             /\ par' = ParLog(Reads(s.rhs, TopF, heap), {<<0 - s.c, 0>>}, {})
             /\ UNCHANGED <<nal, trap, tr, tpos>>
  /\ UNCH_ID

PassS ==
  /\ AtStmt /\ Cur.k = "pass"
  /\ frames' = SetTop([TopF EXCEPT !.stk = AdvStk(@)])
  /\ UNCHANGED <<heap, nal, trap, par, tr, tpos>> /\ UNCH_ID

AllocS ==
  /\ AtStmt /\ Cur.k = "alloc"
  /\ LET s == Cur
         F == TopF
         c == ChkAll(s.shape, F, heap)
     IN IF c # "ok" THEN Trap(c)
        ELSE LET sh == [d \in 1..Len(s.shape) |-> Eval(s.shape[d], F, heap)]
                 ev == <<"a", sh>>
             IN
             IF \E d \in 1..Len(sh) : sh[d] < 1 THEN Trap("nonpos")
             ELSE IF s.n \in DOMAIN F.bufs THEN Trap("rebound")
             ELSE IF ~TraceOK(ev) THEN Trap("trace")
             ELSE /\ heap' = (nal :> [cells |-> [q \in 1..Prod(sh) |-> Poison], live |-> TRUE]) @@ heap
                  /\ nal' = nal + 1
                  /\ LET k == Len(F.stk)
                         ns == [F.stk EXCEPT ![k].i = @ + 1, ![k].als = Append(@, <<s.n, nal>>)]
                     IN frames' = SetTop([F EXCEPT
                        !.bufs = (s.n :> [al |-> nal, off |-> 0, st |-> RowMajor(sh), sh |-> sh, dw |-> FALSE]) @@ @,
                        !.stk = ns])
                  /\ TraceStep(ev)
                  /\ UNCHANGED <<trap, par>>
  /\ UNCH_ID

FreeS ==
  /\ AtStmt /\ Cur.k = "free"
  /\ LET s == Cur
         F == TopF
     IN IF s.n \notin DOMAIN F.bufs THEN Trap("unbound")
        ELSE LET a == F.bufs[s.n].al IN
             IF a \notin DOMAIN heap THEN Trap("dangling")
             ELSE IF ~heap[a].live THEN Trap("dfree")
             ELSE /\ heap' = [heap EXCEPT ![a].live = FALSE]
                  /\ frames' = SetTop([F EXCEPT !.stk = AdvStk(@)])
                  /\ UNCHANGED <<nal, trap, par, tr, tpos>>
  /\ UNCH_ID

WinS ==
  /\ AtStmt /\ Cur.k = "winstmt"
  /\ LET s == Cur
         F == TopF
         c == ChkWin(s.rhs, F, heap)
     IN IF c # "ok" THEN Trap(c)
        ELSE IF s.n \in DOMAIN F.bufs THEN Trap("rebound")
        ELSE /\ LET k == Len(F.stk)
                    ns == [F.stk EXCEPT ![k].i = @ + 1, ![k].als = Append(@, <<s.n, 0>>)]
                IN frames' = SetTop([F EXCEPT
                   !.bufs = (s.n :> WinDesc(s.rhs, F, heap)) @@ @,
                   !.stk = ns])
             /\ UNCHANGED <<heap, nal, trap, par, tr, tpos>>
  /\ UNCH_ID

ForS ==
  /\ AtStmt /\ Cur.k = "for"
  /\ LET s == Cur
         F == TopF
         c == IF Chk(s.lo, F, heap) # "ok" THEN Chk(s.lo, F, heap) ELSE Chk(s.hi, F, heap)
     IN IF c # "ok" THEN Trap(c)
        ELSE LET lo == Eval(s.lo, F, heap)
                 hi == Eval(s.hi, F, heap)
                 rd == Reads(s.lo, F, heap) \cup Reads(s.hi, F, heap)
             IN IF hi < lo THEN Trap("negtrip")
                ELSE IF s.it \in DOMAIN F.env THEN Trap("rebound")
                ELSE IF lo = hi
                THEN /\ frames' = SetTop([F EXCEPT !.stk = AdvStk(@)])
                     /\ par' = ParLog(rd, {}, {})
                     /\ UNCHANGED <<heap, nal, trap, tr, tpos>>
                ELSE /\ IF s.par /\ Permuting
                        THEN \E o \in Orders(lo, hi) :
                               frames' = SetTop([F EXCEPT
                                 !.env = (s.it :> o[1]) @@ @,
                                 !.stk = Append(@, [b |-> s.body, i |-> 1, hi |-> hi, als |-> << >>,
                                                    ord |-> Tail(o), pm |-> TRUE])])
                        ELSE frames' = SetTop([F EXCEPT
                           !.env = (s.it :> lo) @@ @,
                           !.stk = Append(@, [b |-> s.body, i |-> 1, hi |-> hi, als |-> << >>, ord |-> << >>, pm |-> FALSE])])
                     /\ par' = IF s.par /\ Unit.race
                               THEN Append(ParLog(rd, {}, {}),
                                           [fd |-> NF, sd |-> Len(F.stk) + 1,
                                            acc |-> EmptyAcc, cur |-> EmptyAcc])
                               ELSE ParLog(rd, {}, {})
                     /\ UNCHANGED <<heap, nal, trap, tr, tpos>>
  /\ UNCH_ID

IfS ==
  /\ AtStmt /\ Cur.k = "if"
  /\ LET s == Cur
         F == TopF
         c == Chk(s.cond, F, heap)
     IN IF c # "ok" THEN Trap(c)
        ELSE /\ frames' = SetTop([F EXCEPT !.stk =
                  IF Eval(s.cond, F, heap) THEN Append(@, Ctl(s.body))
                  ELSE IF s.orelse = 0 THEN AdvStk(@) ELSE Append(@, Ctl(s.orelse))])
             /\ par' = ParLog(Reads(s.cond, F, heap), {}, {})
             /\ UNCHANGED <<heap, nal, trap, tr, tpos>>
  /\ UNCH_ID

\* leaving a block instance: unbind its names, release its allocations
Release(F, c) ==
  LET names == {c.als[j][1] : j \in 1..Len(c.als)}
      ids == {c.als[j][2] : j \in 1..Len(c.als)} \ {0}
  IN <<[F EXCEPT !.bufs = [n \in DOMAIN @ \ names |-> @[n]]], ids>>

EndBlock ==
  /\ Running /\ Len(Stk) > 0 /\ TopC.i > Len(Blocks[TopC.b])
  /\ LET F == TopF
         c == TopC
         rel == Release(F, c)
         F1 == rel[1]
         leaked == {a \in rel[2] : heap[a].live /\ Unit.frees}
         isParBody == par # << >> /\ par[Len(par)].fd = NF /\ par[Len(par)].sd = Len(F.stk)
         pm == IF isParBody THEN par[Len(par)] ELSE [acc |-> EmptyAcc, cur |-> EmptyAcc]
     IN IF leaked # {} THEN Trap("leak")
        ELSE IF isParBody /\ Races(pm.acc, pm.cur) THEN Trap("race")
        ELSE /\ heap' = [a \in DOMAIN heap \ rel[2] |-> heap[a]]
             /\ UNCHANGED <<nal, trap, tr, tpos>>
             /\ IF Len(F.stk) = 1
                THEN /\ frames' = SetTop([F1 EXCEPT !.stk = << >>])
                     /\ par' = par
                ELSE LET pc == F.stk[Len(F.stk) - 1]
                         ps == Blocks[pc.b][pc.i]
                         popped == SubSeq(F.stk, 1, Len(F.stk) - 1)
                         more == IF c.pm THEN c.ord # << >> ELSE F.env[ps.it] + 1 < c.hi
                     IN IF ps.k = "for" /\ more
                        THEN /\ frames' = SetTop([F1 EXCEPT
                                  !.env = [@ EXCEPT ![ps.it] = IF c.pm THEN Head(c.ord) ELSE @ + 1],
                                  !.stk = [F.stk EXCEPT ![Len(F.stk)] =
                                              [b |-> c.b, i |-> 1, hi |-> c.hi, als |-> << >>,
                                               ord |-> IF c.pm THEN Tail(c.ord) ELSE << >>, pm |-> c.pm]]])
                             /\ par' = IF isParBody
                                       THEN [par EXCEPT ![Len(par)] =
                                               [@ EXCEPT !.acc = Merge(pm.acc, pm.cur), !.cur = EmptyAcc]]
                                       ELSE par
                        ELSE IF ps.k = "for"
                        THEN /\ frames' = SetTop([F1 EXCEPT
                                  !.env = [n \in DOMAIN @ \ {ps.it} |-> @[n]],
                                  !.stk = AdvStk(popped)])
                             /\ par' = IF isParBody
                                       THEN LET all == Merge(pm.acc, pm.cur)
                                                rest == SubSeq(par, 1, Len(par) - 1)
                                            IN IF rest = << >> THEN rest
                                               ELSE [rest EXCEPT ![Len(rest)].cur = Merge(@, all)]
                                       ELSE par
                        ELSE /\ frames' = SetTop([F1 EXCEPT !.stk = AdvStk(popped)])
                             /\ par' = par
  /\ UNCH_ID

\* ------------------------------------------------------------------- calls
ArgDesc(a, F, hp) ==
  CASE a.k = "rd" -> IF a.idx = << >> THEN F.bufs[a.n]
                     ELSE LET d == F.bufs[a.n]
                              ix == [j \in 1..Len(a.idx) |-> Eval(a.idx[j], F, hp)]
                          IN [al |-> d.al, off |-> d.off + DotOff(ix, d.st, Len(ix)),
                              st |-> << >>, sh |-> << >>, dw |-> TRUE]
    [] a.k = "win" -> WinDesc(a, F, hp)
    [] a.k = "rcfg" -> CfgDesc(a.c)
ChkArg(a, isbuf, F, hp) ==
  IF ~isbuf THEN Chk(a, F, hp)
  ELSE CASE a.k = "rd" -> IF a.idx = << >>
                          THEN (IF a.n \in DOMAIN F.bufs THEN "ok" ELSE "unbound")
                          ELSE Chk(a, F, hp)
         [] a.k = "win" -> ChkWin(a, F, hp)
         [] a.k = "rcfg" -> "ok"
         [] OTHER -> "badarg"

CallS ==
  /\ AtStmt /\ Cur.k = "call"
  /\ LET s == Cur
         F == TopF
         pr == Procs[s.f]
         n == Len(pr.args)
         chks == [j \in 1..n |-> ChkArg(s.args[j], IsBuf(pr.args[j]), F, heap)]
         bad == {j \in 1..n : chks[j] # "ok"}
     IN IF bad # {} THEN Trap(chks[CHOOSE j \in bad : TRUE])
        ELSE LET cidx == {j \in 1..n : ~IsBuf(pr.args[j])}
                 bidx == {j \in 1..n : IsBuf(pr.args[j])}
                 en == [nm \in {pr.args[j].n : j \in cidx} |->
                          Eval(s.args[CHOOSE j \in cidx : pr.args[j].n = nm], F, heap)]
                 bf == [nm \in {pr.args[j].n : j \in bidx} |->
                          ArgDesc(s.args[CHOOSE j \in bidx : pr.args[j].n = nm], F, heap)]
                 G == [proc |-> s.f, stk |-> << Ctl(pr.entry) >>, env |-> en, bufs |-> bf]
                 rankOK == \A j \in bidx : Len(pr.args[j].shape) = Len(bf[pr.args[j].n].sh)
                 shapeOK == \A j \in bidx :
                               LET want == [d \in 1..Len(pr.args[j].shape) |->
                                              Eval(pr.args[j].shape[d], G, heap)]
                               IN want = bf[pr.args[j].n].sh
                 posOK == \A j \in bidx : \A d \in 1..Len(bf[pr.args[j].n].sh) :
                               bf[pr.args[j].n].sh[d] >= 1
                 aliasOK == \A j, k \in bidx : j # k => bf[pr.args[j].n].al # bf[pr.args[k].n].al
                 rd == UNION {IF ~IsBuf(pr.args[j]) THEN Reads(s.args[j], F, heap)
                              ELSE IF s.args[j].k = "rd" THEN ReadsAll(s.args[j].idx, F, heap)
                              ELSE IF s.args[j].k = "win" THEN Reads(s.args[j], F, heap)
                              ELSE {} : j \in 1..n}
             IN IF ~SizesOK(pr, G) \/ ~posOK THEN Trap("nonpos")
                ELSE IF ~rankOK \/ ~shapeOK THEN Trap("shape")
                ELSE IF ~aliasOK THEN Trap("alias")
                ELSE IF ~PredsOK(pr, G, heap) THEN Trap("precond")
                ELSE /\ frames' = Append(frames, G)
                     /\ par' = ParLog(rd, {}, {})
                     /\ UNCHANGED <<heap, nal, trap, tr, tpos>>
  /\ UNCH_ID

RetS ==
  /\ Running /\ NF > 1 /\ Len(Stk) = 0
  /\ LET caller == frames[NF - 1]
     IN frames' = Append(SubSeq(frames, 1, NF - 2), [caller EXCEPT !.stk = AdvStk(@)])
  /\ UNCHANGED <<heap, nal, trap, par, tr, tpos>> /\ UNCH_ID

\* ------------------------------------------------------------------ phases
Out(pid) == [bufs |-> [j \in 1..Len(Procs[pid].args) |->
                         IF IsBuf(Procs[pid].args[j]) THEN heap[j].cells ELSE << >>],
             cfg |-> [c \in 1..NCfg |-> heap[0 - c].cells[1]]]

Finish ==
  /\ phase \in {"A", "B"}
  /\ (trap.k # "none" \/ (NF = 1 /\ Len(Stk) = 0))
  /\ IF phase = "A" /\ Unit.B # 0 /\ trap.k = "none"
     THEN /\ outA' = Out(Unit.A) /\ trapA' = trap
          /\ IF ValidInput(Unit.B, SideB)
             THEN /\ phase' = "B"
                  /\ frames' = << EntryFrame(Unit.B, SideB) >>
                  /\ heap' = EntryHeap(Procs[Unit.B], SideB)
                  /\ why' = why
             ELSE /\ phase' = "done" /\ why' = "B-invalid"
                  /\ UNCHANGED <<frames, heap>>
          /\ nal' = 100 /\ trap' = NoTrap /\ par' = << >>
     ELSE /\ phase' = "done"
          /\ (IF phase = "A"
              THEN /\ outA' = (IF trap.k = "none" THEN Out(Unit.A) ELSE << >>)
                   /\ trapA' = trap
              ELSE UNCHANGED <<outA, trapA>>)
          /\ UNCHANGED <<frames, heap, nal, trap, par, why>>
  /\ UNCHANGED <<uid, iid, tr, tpos>>

Next == Start \/ AssignS \/ WCfgS \/ PassS \/ AllocS \/ FreeS \/ WinS \/ ForS \/ IfS
        \/ EndBlock \/ CallS \/ RetS \/ Finish
Spec == Init /\ [][Next]_vars

Bounded == TLCGet("level") <= StepBound

\* ----------------------------------------------------- properties / census
Done == phase = "done"
TrapStr(t) == t.k \o "@" \o ToString(t.p) \o "." \o ToString(t.b) \o "." \o ToString(t.i)

\* final state of B related to the snapshot of A through the unit's output map
\*   outmap[m] = [a |-> argument of A, b |-> argument of B, perm |-> cell permutation or <<>>]
BufDiffs(ob) ==
  {<<m, q>> \in UNION {{<<m, q>> : q \in 1..Len(outA.bufs[Unit.outmap[m].a])} : m \in 1..Len(Unit.outmap)} :
     LET om == Unit.outmap[m]
         va == outA.bufs[om.a][q]
         qb == IF om.perm = << >> THEN q ELSE om.perm[q]
     IN va # Poison /\ (qb > Len(ob.bufs[om.b]) \/ ob.bufs[om.b][qb] # va)}
CfgDiffs(ob) ==
  {c \in 1..NCfg :
     /\ ~(\E q \in 1..Len(Unit.modset) : Unit.modset[q] = c)
     /\ (Unit.cfgbool[c] \/ outA.cfg[c] # Poison)
     /\ ob.cfg[c] # outA.cfg[c]}

EqVerdict ==
  IF why # "" THEN why
  ELSE IF trapA.k # "none" THEN "A-trap:" \o TrapStr(trapA)
  ELSE IF trap.k # "none" THEN "B-trap:" \o TrapStr(trap)
  ELSE IF Tracing /\ tpos # Len(tr) + 1 THEN "B-trap:trace-short"
  ELSE LET ob == Out(Unit.B)
           bd == BufDiffs(ob)
           cd == CfgDiffs(ob)
       IN IF bd # {} THEN LET w == CHOOSE x \in bd : TRUE
                              om == Unit.outmap[w[1]]
                              qb == IF om.perm = << >> THEN w[2] ELSE om.perm[w[2]]
                              un == qb <= Len(ob.bufs[om.b]) /\ ob.bufs[om.b][qb] = Poison
                          IN (IF un THEN "uninit:arg" ELSE "differ:arg")
                             \o ToString(om.a) \o "[" \o ToString(w[2] - 1) \o "]"
          ELSE IF cd # {} THEN "cfg-differ:" \o ToString(CHOOSE c \in cd : TRUE)
          ELSE "ok"
\* ExoCTrace: the single logged event of the compiled program must match
CVerdict ==
  IF why # "" THEN why
  ELSE IF trapA.k # "none" THEN "A-trap:" \o TrapStr(trapA)
  ELSE IF Input.event # "return" THEN "c-event:" \o Input.event
  ELSE IF outA.bufs = Input.out.bufs /\ outA.cfg = Input.out.cfg THEN "ok" ELSE "c-differs"
SafeVerdict ==
  IF why # "" THEN why
  ELSE IF trapA.k = "none" THEN "ok" ELSE "A-trap:" \o TrapStr(trapA)

Verdict == IF Unit.B # 0 THEN EqVerdict
           ELSE IF "event" \in DOMAIN Input THEN CVerdict
           ELSE SafeVerdict
\* static well-scopedness of every procedure of the unit, reported once per unit
\* (procedures 1..Unit.nA are the reference procedure and its callees, the rest belong to B)
ScopeOK(lo, hi) == \A q \in lo..hi : WellScoped(Procs[q])
Census == Done => PrintT(ToJson([u |-> uid, i |-> iid, v |-> Verdict, n |-> TLCGet("level"),
                                 wsa |-> IF iid = 1 THEN ScopeOK(1, Unit.nA) ELSE TRUE,
                                 wsb |-> IF iid = 1 THEN ScopeOK(Unit.nA + 1, Len(Procs)) ELSE TRUE]))

\* The same properties as real invariants (used for single-unit replays, where
\* TLC's counterexample behaviour is the witness).
NoViolation == Done => Verdict \in {"ok", "A-invalid"}
=============================================================================
