SPECIFICATION Spec
CONSTANTS Bases = {"x", "x_1", "y"}
          MaxId = 2
          MaxDepth = 3
          MaxOps = 6
          EmitOn = TRUE
INVARIANT Injective
INVARIANT Emit
PROPERTY Stable
CHECK_DEADLOCK FALSE
VIEW View
