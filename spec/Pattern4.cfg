SPECIFICATION Spec
CONSTANT MaxN = 4
INVARIANT ProgramOrder
INVARIANT Exact
INVARIANT Emit
CHECK_DEADLOCK FALSE
