#!/bin/sh
# Offline setup: verify tools, byte-compile the harness, SANY-parse all specs.
set -e
cd "$(dirname "$0")"
command -v java >/dev/null
command -v gcc >/dev/null
test -f /opt/veriftools/tla/tla2tools.jar
/venv/bin/python -c "import exo, hypothesis" 
/venv/bin/python -m compileall -q harness >/dev/null
mkdir -p evidence
for f in spec/*.tla; do
  (cd spec && java -cp /opt/veriftools/tla/tla2tools.jar:/opt/veriftools/tla/CommunityModules-deps.jar tla2sany.SANY "$(basename "$f")" >/dev/null 2>&1) || { echo "SANY failed on $f"; exit 1; }
done
echo "setup ok"
